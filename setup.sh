#!/bin/bash
# MANIFEST.setup_cmd: builds the coordinator and warms the Go build caches (plain and -race)
# from files on disk only.
cd "$(dirname "$(readlink -f "$0")")" || exit 2
export GOFLAGS=-mod=mod GOPROXY=off GOSUMDB=off GOTOOLCHAIN=local
mkdir -p bin work evidence replays
cd harness || exit 2
go build -o ../bin/vcheck ./cmd/vcheck || exit 1
go build -tags verif -o ../bin/vworker.warm ./cmd/vworker || exit 1
go build -tags verif -race -o ../bin/vworker.race.warm ./cmd/vworker || exit 1
rm -f ../bin/vworker.warm ../bin/vworker.race.warm
echo setup ok
