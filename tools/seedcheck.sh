#!/bin/bash
# seedcheck.sh <seed-dir> [checks...]
# Confirms a seeded change independently on a fresh scratch worktree of /repo's HEAD:
#   1. the patch applies and builds, 2. the repository's baseline suite still passes with it,
#   3. the demo fails with it and passes without it, 4. runs the given checks (default: the
#   property named in meta.json) against the mutated tree with tools/try_tree.sh.
# Prints one RESULT line per step. The scratch worktree is removed afterwards.
SEED=$(readlink -f "$1"); shift
export GOFLAGS=-mod=mod GOPROXY=off GOSUMDB=off GOTOOLCHAIN=local
PROP=$(python3 -c "import json,sys,os;p='$SEED/meta.json';p=p if os.path.exists(p) else '$SEED/meta.agent.json';print(json.load(open(p))['property'])")
META=$SEED/meta.json; [ -f "$META" ] || META=$SEED/meta.agent.json
DEMO=$(python3 -c "import json,sys;print(json.load(open('$META')).get('demo_test','TestSeed'))")
RACE=$(python3 -c "import json,sys;print('-race' if json.load(open('$META')).get('demo_needs_race') else '')")
CHECKS=${@:-$PROP}
WT=$(mktemp -d /tmp/seedwt.XXXXXX)
rmdir "$WT"
git -C /repo worktree add -q "$WT" HEAD || exit 2
cleanup() { git -C /repo worktree remove --force "$WT" 2>/dev/null; git -C /repo worktree prune; }
trap cleanup EXIT
cd "$WT"
cp "$SEED/demo_test.go" test/zz_seed_demo_test.go
timeout 600 go test $RACE -vet=off -count=1 ./test -run "^${DEMO}\$" > /tmp/seed.$$.clean 2>&1
echo "RESULT demo-without-change: exit=$? ($(grep -c '^--- PASS\|^ok' /tmp/seed.$$.clean) pass lines)"
if ! git apply "$SEED/patch.diff"; then echo "RESULT patch: DOES NOT APPLY"; exit 1; fi
timeout 600 go test $RACE -vet=off -count=1 ./test -run "^${DEMO}\$" > /tmp/seed.$$.mut 2>&1
echo "RESULT demo-with-change: exit=$? ($(tail -3 /tmp/seed.$$.mut | tr '\n' ' ' | cut -c1-200))"
rm -f test/zz_seed_demo_test.go
if [ -z "$SKIP_SUITE" ]; then
  go test -json -vet=off -count=1 -timeout 25m ./... 2>/dev/null > /tmp/seed.$$.suite
  python3 - /tmp/seed.$$.suite <<'PY'
import json,sys
base=json.load(open('/root/.vp/BASELINE.json')); want=set(base['stable_pass']); res={}
for l in open(sys.argv[1]):
    try: e=json.loads(l)
    except Exception: continue
    if e.get('Test') and e.get('Action') in('pass','fail') and '/' not in e['Test']:
        res[e['Package']+'::'+e['Test']]=e['Action']
missing=[t for t in sorted(want) if res.get(t)!='pass']
print("RESULT suite-with-change: %d/%d baseline tests pass %s"%(len(want)-len(missing),len(want),missing[:5]))
PY
fi
for c in $CHECKS; do
  out=$(/verif/tools/try_tree.sh "$WT" "$c" quick 2>&1)
  nv=$(echo "$out" | grep -c '^VIOLATION')
  echo "RESULT check $c: $(echo "$out" | tail -1 | cut -c1-200)"
  echo "$out" | grep '^  what' | head -4 | cut -c1-300
done
rm -f /tmp/seed.$$.*
