#!/bin/bash
# seedall.sh [id ...] — confirms every seeded change under /verif/seeded (or the given ones) on scratch
# worktrees and runs the checks named in its checks.txt against it; result.txt is written next to it.
# With REUSE_SUITE=1 the (slow) baseline-suite step is skipped when an earlier result already recorded it
# for the same patch.diff.
cd /verif/seeded || exit 2
ids=${@:-$(ls | grep -v "^_")}
run() {
  d=$1; r=/verif/seeded/$d/result.txt
  old=""
  if [ -n "$REUSE_SUITE" ] && [ -f "$r" ]; then old=$(grep '^RESULT suite-with-change' "$r" | head -1); fi
  if [ -n "$old" ]; then
    SKIP_SUITE=1 /verif/tools/seedcheck.sh /verif/seeded/$d $(cat /verif/seeded/$d/checks.txt) > $r.new 2>&1
    awk -v s="$old" '{print} /^RESULT demo-with-change/{print s}' $r.new > $r; rm -f $r.new
  else
    /verif/tools/seedcheck.sh /verif/seeded/$d $(cat /verif/seeded/$d/checks.txt) > $r 2>&1
  fi
  echo "done $d: $(grep -c 'violations=[1-9]' $r) check(s) fired"
}
export -f run
printf '%s\n' $ids | xargs -P 4 -I{} bash -c 'run {}'
