#!/bin/bash
# seedall.sh [id ...] — confirms every seeded change under /verif/seeded (or the given ones) on scratch
# worktrees and runs the checks named in its checks.txt against it; result.txt is written next to it.
cd /verif/seeded || exit 2
ids=${@:-$(ls)}
run() { d=$1; /verif/tools/seedcheck.sh /verif/seeded/$d $(cat /verif/seeded/$d/checks.txt) > /verif/seeded/$d/result.txt 2>&1; echo "done $d: $(grep -c 'violations=[1-9]' /verif/seeded/$d/result.txt) check(s) fired"; }
export -f run
printf '%s\n' $ids | xargs -P 3 -I{} bash -c 'run {}'
