#!/bin/bash
# sweep.sh <quick|thorough> <seed> [seed ...] [-- Cxx ...]  — runs the checks at several VERIF_SEED values and
# prints one line per run; non-silent runs are flagged with "!!".
cd "$(dirname "$(readlink -f "$0")")/.." || exit 2
tier=$1; shift
seeds=(); props=()
while [ $# -gt 0 ]; do if [ "$1" = "--" ]; then shift; props=("$@"); break; fi; seeds+=("$1"); shift; done
[ ${#props[@]} -eq 0 ] && props=(C01 C02 C03 C04 C05 C06 C07 C08 C09 C10 C11 C12 C13 C14 C15 C16 C17 C18 C19 C20)
bad=0
for s in "${seeds[@]}"; do
  for p in "${props[@]}"; do
    out=$(VERIF_SEED=$s ./check $p $tier 2>&1); rc=$?
    last=$(echo "$out" | tail -1)
    flag="  "
    if [ $rc -ne 0 ] || echo "$out" | grep -q "^VIOLATION\|^INCONCLUSIVE\|HARNESS-FAILURE\|BUILD-FAILED"; then flag="!!"; bad=$((bad+1)); fi
    echo "$flag rc=$rc $last"
    if [ "$flag" = "!!" ]; then echo "$out" | grep "^VIOLATION\|^  what\|^INCONCLUSIVE\|HARNESS\|BUILD" | head -8 | cut -c1-300; fi
  done
done
echo "sweep finished: $bad non-silent run(s)"
