#!/bin/bash
# try_tree.sh <repo-dir> <property> [quick|thorough]  — runs a check against another checkout of
# gengine (a scratch worktree with a mutation applied) without touching /repo or /verif.
# Only a development aid: registered checks always run ./check against /repo.
set -e
REPO=$(readlink -f "$1"); PROP=$2; TIER=${3:-quick}
export GOFLAGS=-mod=mod GOPROXY=off GOSUMDB=off GOTOOLCHAIN=local
T=$(mktemp -d /tmp/vt.XXXXXX)
trap 'rm -rf "$T"' EXIT
cp -r /verif/harness "$T/harness"
cp /verif/KNOWN_FINDINGS.txt "$T/" 2>/dev/null || true
sed -i "s#=> /repo#=> $REPO#" "$T/harness/go.mod"
( cd "$T/harness" && go build -o "$T/vcheck" ./cmd/vcheck )
cd "$T" && VERIF_ROOT="$T" "$T/vcheck" "$PROP" "$TIER" | sed "s#$T/replays#(scratch)/replays#"
