#!/usr/bin/env python3
"""Copies finished seeds from /tmp/mut/<ID>/_seed/<v> into /verif/seeded/<ID>_<v> (with the checks to run)."""
import os, json, shutil, glob, sys
only=set(sys.argv[1:])  # optional: property ids whose agents have finished
extra = {"C02":"C02 C06","C06":"C06 C17 C19","C07":"C07 C16 C19","C15":"C15 C06 C19","C17":"C17 C06 C19","C18":"C18 C06 C19","C19":"C19 C06 C07","C16":"C16 C07","C04":"C04 C08","C11":"C11 C06","C08":"C08 C16","C10":"C10 C07","C05":"C05 C12","C09":"C09","C13":"C13","C14":"C14","C12":"C12","C01":"C01","C03":"C03","C20":"C20"}
ready=[]
for d in sorted(glob.glob('/tmp/mut/C*/_seed/[a-z]')):
    pid=d.split('/')[3]; var=d[-1]
    if only and pid not in only: continue
    if not (os.path.exists(d+'/meta.json') and os.path.exists(d+'/patch.diff') and os.path.exists(d+'/demo_test.go')): continue
    dst=f'/verif/seeded/{pid}_{var}'
    if os.path.exists(dst+'/patch.diff'): continue
    os.makedirs(dst, exist_ok=True)
    shutil.copy(d+'/patch.diff', dst+'/patch.diff'); shutil.copy(d+'/demo_test.go', dst+'/demo_test.go')
    json.dump(json.load(open(d+'/meta.json')), open(dst+'/meta.agent.json','w'), indent=1)
    open(dst+'/checks.txt','w').write(extra.get(pid,pid)+"\n")
    ready.append(f'{pid}_{var}')
print(" ".join(ready))
