#!/usr/bin/env python3
"""Builds /verif/seeded/<id>/meta.json from the agent's meta and the seedcheck result, and prints the
DESIGN section 9 table."""
import json, os, re, glob
STRENGTHENED = {
 "C01_a": "first version caught it once in 25 600 expressions; near-equal boundary integer pairs added (now ~40 hits)",
 "C02_b": "missed at first (pure conditions only); a quarter of the conditions now go through the observer tb(id, cond)",
 "C03_b": "missed at first; missing-key reads in every key form on pointer-injected maps added to the E1 leaves",
 "C04_b": "missed by C04 at first (its faults did not reach the rule-level recover; C09 caught it); E2 fault kinds index-in-condition / non-bool-condition added",
 "C05_a": "missed at first; the 4 MB-panic fault kind (slow error construction) makes the early barrier release visible",
 "C06_b": "a lost update on the addition list needs a put/get overlap of nanoseconds: not seen by C06/C17 storms, caught by the race detector (C19)",
 "C07_b": "missed at first; re-push of an earlier full-update text added as an operation (C07 histories, C16)",
 "C09_a": "missed at first; unbounded loops whose passes all end in continue added to the catalog",
 "C11_a": "missed at first; rejected N-M calls (invalid split / wrong count) added, result clause decided for them",
 "C12_a": "missed at first (duplicate names were not generated); duplicate-carrying lists added with the clause 'no unselected rule runs'",
 "C13_a": "needed the slow-error fault kind, like C05_a",
 "C15_a": "missed at first; leak probe extended with a local assigned before a panic-class fault",
 "C15_b": "a lazy-init race on the first two executions of a fresh rule: not seen by the C15 bursts, caught by the race detector (C19)",
 "C17_a": "missed at first; sequential prelude before the first saturation added",
 "C17_b": "missed at first; 'rules cleared while requests wait for an instance' phase added",
 "C18_b": "crashes / races only: members that read locals and 6 executions per text added, caught by the race detector (C19)",
 "C02_d": "an iterator kept on the shared syntax-tree node: invisible to the single-threaded C02 programs; caught since the pool-storm rules run forRange / for / else-if on request data (C06 loop-or-branch-disturbed) and by the race detector (C19)",
 "C06_d": "missed at first; storm rules qd (assigns a local, then faults) and ql (reads that name) added: C06 stale-local; also C15",
 "C07_c": "a lost update between RemoveRules and a concurrent update; the functional symptom needs a removal that takes milliseconds, the race detector (C19) sees it through the two-updater histories",
 "C09_d": "missed at first; stores of a value of the same kind but another type (named integer type, other struct type) added to the fault catalog: the follow-up call hangs",
 "C10_d": "needs an incremental update racing a full update: invisible to the single-threaded C10 driver, caught by the C07 histories with two updaters issuing all kinds (added)",
 "C14_c": "only permutes rules of equal salience (sort.Slice instead of SliceStable, >12 rules); caught after the literal clause 'identical to the variant without a tag' was added on large tie-heavy sets",
 "C15_c": "missed at first; a rule that assigns a local only in its else branch added to the leak probe",
 "C15_d": "argument buffer kept on the shared syntax-tree node: caught by the pool-storm rule mix(Req.Id, pause(Req.Id), Req.Id*2) (C06 foreign-arguments) and by C19",
 "C17_c": "missed at first; phase 'exactly one additional instance is handed back while a request waits' added (needs the hook-fed request->instance map)",
 "C17_d": "missed at first; requests that end with a panic in the caller's goroutine (nil *Stag) added to the storm",
 "C18_c": "error list kept on the shared syntax-tree node: invisible to single-engine C18; caught by the pool-storm conc block (C06 conc-error-lost) and by C19",
 "C18_d": "missed at first; locals that exist before the block and are re-assigned inside it added",
 "C20_c": "missed at first; decoy added: the same faulty text on an earlier line inside a branch that is never taken",
 "C01_e": "missed at first by design (faults below the right operand of && / || were not generated); the property is unconditional, so they are generated now and the short-circuit 'optimisation' is caught",
 "C01_f": "missed at first; numeric rule names beyond the int32 range added",
 "C03_e": "missed at first; caught by C06 (methods of request-scoped objects in the storm rules) and by the new C03 re-injection sub-check",
 "C04_e": "the sorted stop-tag loops are C14's entry points: caught by C14 (error clause)",
 "C04_f": "in-place filtering of the published sorted list: caught by C07 (torn executions) and C19",
 "C05_e": "missed at first; duplicate names in selected N-M calls added (clause: no unselected rule runs)",
 "C06_f": "missed at first; empty-DAG requests added to the storms (C06 cross-talk, C17 double hand-back)",
 "C09_e": "missed at first; conc stress (wide conc block over locals, 240 executions) added to the random part: the process dies",
 "C09_f": "missed at first; DAG calls with the faulty rule in the last / only layer added",
 "C10_f": "needs an EMPTY pool before the incremental update: caught by C16 (clear, incremental, executions on every instance)",
 "C11_d": "caught reliably since result maps are re-compared at the end of the case and laggard holds are on",
 "C11_f": "a shared loop variable in the fan-out goroutines: big rule sets added to C11; the race detector (C19) catches it at once",
 "C14_f": "missed at first; a rule is now replaced by an incremental update half-way through a case (stale cached selection)",
 "C15_f": "missed at first; caught by the C03 re-injection sub-check (a name that was a rule local is later injected as a pointer)",
 "C17_f": "missed at first; exec-model changes / queries in a tight loop next to the storm requests added: the pool wedges",
 "C20_f": "missed at first; texts with the faulty construct beyond line 65535 added",
 "C01_g": "missed at first (NaN was left undefined by the reference); 'made in float64' is unambiguous, so NaN / infinities are injected and computed and compared now",
 "C01_h": "the run was INCONCLUSIVE (the generated text did not compile) instead of failing; a generated text of the language that the builder rejects is a violation now (C01, C02, C03, C18)",
 "C02_h": "missed at first; locals bound to a whole array-typed field added (stores into the field afterwards, reads through the local)",
 "C03_g": "missed at first; a local whose name is injected WHILE the rule runs (by a host function) added to the re-injection sub-check",
 "C03_h": "missed at first; promoted fields of embedded structs (one and two levels) added to fixture, leaves and conversion matrix (933 -> 1018 cells)",
 "C04_h": "caught by C16 and C05 at once, by C04 only after the share of pool targets was raised to one half",
 "C06_g": "missed at first; N-M requests the method rejects added to the pool storms (they must get a result map of their own)",
 "C09_g": "missed at first; in one catalog case in three the faulty rule sets the stop tag before it faults",
 "C09_h": "missed at first; constructs 'fault in the argument of a function / method / three-level call statement', outside and inside conc blocks, added (425 -> 540 cells): the process dies",
 "C11_h": "missed at first; one generated rule in four runs a loop that leaves by break / skips by continue before its own statements",
 "C12_h": "missed at first; the selected calls made before the mid-case incremental replacement are repeated unchanged (same method, same name list, same engine) right after it",
 "C15_g": "missed at first; locals assigned from an element of injected data (an addressable location) added next to locals assigned from constants",
 "C15_h": "missed at first; function-valued locals added to the leak probe (a rule that never assigned hfn calls it; a rule that assigned its own calls it)",
 "C01_j": "missed at first; rule names with leading / trailing blanks added (@name is the registered name)",
 "C03_i": "missed at first; two different struct types with the same type name and another field layout are injected one after the other under one name (re-injection sub-check)",
 "C03_j": "an argument buffer kept on the shared syntax-tree node: invisible to the single-threaded C03 programs, caught by the pool storm (C06 foreign-arguments) and by C19",
 "C06_i": "missed at first; k4 is now ALSO the name of an object the pool was built with, requests inject their own k4 over it",
 "C07_j": "caught since ClearPoolRules is part of the C07 histories (the cleared state is modelled: nothing runs until a full or incremental update)",
 "C09_i": "caught since the random part ranges over containers that grow while they are ranged over (the call has to come back)",
 "C09_j": "caught since the construct 'two failing three-level calls in one conc block' is in the catalog: the call hangs",
 "C10_i": "caught since C10 submits texts in states that earlier management calls produced, among them the very text of the initial load once more",
 "C14_i": "missed at first; the stop tag is a struct-valued member of an injected holder and a third of the setters reach it through the three-level path stagh.S.StopTag",
 "C15_i": "missed at first by C15 (caught by C02 once locals bound to slice-typed fields were generated); the C15 probe now keeps a slice in a local while the field it came from is replaced",
 "C15_j": "missed at first; a forRange whose loop variable is an injected pointer scalar added (C02: host state, C15 probe: the host sees the last index)",
 "C18_j": "missed at first; a conc block that directly follows another conc block and reads a local the first one assigned",
 "C19_j": "missed at first; conc members call methods on a LOCAL that holds the injected object (dotted name headed by a local) next to members assigning locals",
 "C20_i": "missed at first; one text in five is delivered twice - first five lines further down, then (incrementally) at its final place - and the text compiled last must be cited",
 "C04_c": "caught by C04 itself since the mid-case incremental update carries several rules (replacements, a moved rule, a new rule) in one text",
 "C04_e": "caught by C04 itself since the stop-tag variants of the sorted loops are among its entry points",
 "C07_d": "caught by C07 itself since ClearPoolRules is part of its histories",
 "C07_g": "caught by C07 itself since its histories also remove every installed rule",
 "C10_e": "caught by C10 itself since texts are submitted in the state 'one rule removed'",
 "C10_f": "caught by C10 itself since texts are submitted to an emptied / cleared pool",
 "C01_k": "missed at first; comparisons of a signed integer at the edge of its range with injected unsigned values at the same edge (UMaxI = 2^63-1, UMaxI+1, UMax ...) added",
 "C01_l": "caught since integer literals are also printed with leading zeros (0010 is ten)",
 "C02_k": "missed at first; an EMPTY else-if branch in front of an else that does something added",
 "C02_l": "missed at first; forRange over a nil map (zero passes) added",
 "C03_k": "caught since fields of named types over the DSL's kinds (time.Duration, type Level int64, Ratio, Name, Flag) are in the fixture and the conversion matrix",
 "C03_l": "caught since variadic callees (fixed parameters of other widths, typed tail, nothing / one / several tail arguments) are in the fixture and the reference",
 "C05_k": "missed at first; one wide-salience rule set in eight uses time stamps as saliences (far above 2^53, a few units apart)",
 "C05_l": "a stage of more than 64 rules never returns: huge rule sets (66-90 rules) added, and a case of an E2 family that has not finished after 60 s is a violation now (it was inconclusive)",
 "C06_k": "missed at first; requests that fill only the second object slot of ExecuteRulesWithSpecifiedEM added",
 "C06_l": "missed at first; every caller now leaves its mark in the result map it received and must not find anyone else's (the cleared-pool phase hands out fresh maps)",
 "C07_k": "a recursive read lock that wedges the pool when an update lands in between: the wedge did occur in the C07 histories but counted as inconclusive; a wedged history is a violation now",
 "C09_k": "caught since the conc-stress part calls injected code that comes back into the data context (function, method, three-level method adding / reading / removing a name)",
 "C09_l": "missed at first; one fault-catalog case in seven uses the smallest rule set with 'other rules' - the faulty rule and one more, above, below or level with it",
 "C10_k": "caught since valid texts are wrapped in invisible characters (byte-order mark, zero-width / no-break space, form feed, NUL) at the very beginning or end",
 "C12_k": "caught since unknown names that differ from an existing name only by blanks around it, and rule names ending in a blank, are generated",
 "C13_k": "caught since one DAG in three (of sets with at least 12 rules) has a WIDE layer with every rule in it, and C13 uses 24-90 rule sets now and then",
 "C13_l": "missed at first; after the calls of a case all rules are removed now and then and the DAG model is called once more (all names unknown: nothing runs, nothing fails)",
 "C14_l": "missed at first; the stop-tag variants get name lists with unknown names and lists without any existing name (the call fails like its twin without a tag)",
 "C15_l": "missed at first; the C15 probe runs two nested loops after a loop that was left by break (9 inner passes); C02 catches it as well",
 "C17_k": "missed at first; two thirds of the storms add 40-120 rendezvous rounds in which max requests are released at the same instant and their hand-backs leave the pool.put.scheduled hook point together (a nanosecond window becomes a reliable one)",
 "C17_l": "caught since N-M requests whose n+m overflows (a panic in the caller's goroutine) are part of the storms",
 "C19_l": "missed at first; the storm rules read map elements of request data with a string-literal and a variable key (first evaluations race on the shared node)",
 "C20_k": "caught since a 'loop cut off by the iteration bound' class (may-cite) is generated",
 "C08_l": "caught since the name alphabet has names that differ only by a blank at the edge",
}
rows = []
for d in sorted(glob.glob('/verif/seeded/C[0-9]*_[a-z]')):
    sid = os.path.basename(d)
    am = json.load(open(d + '/meta.agent.json'))
    res = open(d + '/result.txt').read() if os.path.exists(d + '/result.txt') else ''
    def has(p): return re.search(p, res) is not None
    checks = []
    for m in re.finditer(r'RESULT check (C\d+): .*violations=(\d+).*crashes=(\d+)', res):
        c, v, cr = m.group(1), int(m.group(2)), int(m.group(3))
        tail = res[m.end():]
        nxt = tail.find('RESULT ')
        block = tail[:nxt] if nxt >= 0 else tail
        keys = re.findall(r'\[key ([^,\]]+)', block)
        checks.append({"check": c, "violations_distinct_keys": v, "worker_crashes": cr, "example_keys": keys[:4]})
    caught = [c["check"] for c in checks if c["violations_distinct_keys"] > 0]
    meta = {
        "property": am.get("property"), "variant": am.get("variant"),
        "summary": am.get("summary"),
        "what_it_needs_to_manifest": am.get("what_it_needs_to_manifest"),
        "files_changed": am.get("files_changed"),
        "demo_test": am.get("demo_test"), "demo_needs_race": bool(am.get("demo_needs_race")),
        "produced_by": "independent sub-agent that saw only the property text and a scratch worktree",
        "confirmed_here": {
            "demo_passes_without_change": has(r'demo-without-change: exit=0'),
            "demo_fails_with_change": has(r'demo-with-change: exit=[1-9]'),
            "baseline_suite_with_change": (re.search(r'suite-with-change: (\d+/\d+)', res) or [None, None])[1],
        },
        "what_was_run": ["tools/seedcheck.sh /verif/seeded/%s %s  (fresh scratch worktree of /repo HEAD: demo without change, git apply patch.diff, demo with change, baseline suite, tools/try_tree.sh <check> quick)" % (sid, open(d + '/checks.txt').read().strip())],
        "checks_run": checks,
        "caught_by": caught,
    }
    if sid in STRENGTHENED:
        meta["history"] = STRENGTHENED[sid]
    json.dump(meta, open(d + '/meta.json', 'w'), indent=1, ensure_ascii=False)
    rows.append((sid, (am.get("summary") or "")[:150].replace("|", "/"), ", ".join(caught) or "MISSED", STRENGTHENED.get(sid, "")))
print("| seed | change | caught by (quick, seed 1) | note |\n|---|---|---|---|")
for r in rows:
    print("| %s | %s | %s | %s |" % r)
