#!/usr/bin/env python3
"""Regenerates /verif/MANIFEST.json from the table below (kept by hand)."""
import json, os, subprocess
ROOT = os.path.dirname(os.path.dirname(os.path.abspath(__file__)))

CHECKS = {
 # id: (level, engine, technique, level text, level note, design ref)
 "C04": ("exploration", "E2 trace monitor", "runtime monitoring: observer-function event log of real Execute calls checked online against the sort-model specification row",
         "generated rule sets and calls; every call's start/end trace, error and policy checked by an oracle written from the property; held on the executions observed, no proof",
         "trusts the injected observers and the harness' own log (mutex-protected, sequence numbers only)", "4 C04"),
 "C05": ("exploration", "E2 trace monitor", "runtime monitoring: globally sequenced start/end events with laggard holds, stage-barrier / window / policy oracle per call, varied GOMAXPROCS",
         "barriers are provoked by holds that delay an earlier-stage rule until a forbidden start is logged; verdicts on sequence numbers only",
         "a missing barrier must manifest within the 0.3-2.5 ms hold or as an incomplete log at return", "4 C05"),
 "C11": ("exploration", "E2 trace monitor", "runtime monitoring: result map of every call compared with the set of rules whose return was observed in that call's event log, over call sequences on one engine / pool instance",
         "exploration over generated rule sets, methods and call sequences", "expected key set is derived from the observed trace, not from a model of the scheduler", "4 C11"),
 "C12": ("exploration", "E2 trace monitor", "runtime monitoring: event-log oracle for the selected-rule rows (selection, as-given order, underlying model) over generated name lists",
         "exploration over name lists incl. unknown names, empty lists, wrong N+M counts, duplicated names", "for lists with a duplicated name only 'no unselected rule runs' is decided (the property does not say how often a duplicate runs)", "4 C12"),
 "C13": ("exploration", "E2 trace monitor", "runtime monitoring: event-log oracle for DAG layers (barriers with laggard holds, occurrences, stop after a failing layer)",
         "exploration over generated layerings and failing subsets, GOMAXPROCS varied", "holds only provoke", "4 C13"),
 "C14": ("exploration", "E2 trace monitor", "runtime monitoring: event-log oracle for the stop-tag rows; tag-less equivalence by validating against the tag-less row",
         "exploration over setter positions x failing subsets x policy", "", "4 C14"),
 "C01": ("exploration", "E1 generator + reference interpreter", "runtime monitoring: differential reference-model monitor over generated expression trees executed by the real builder/engine (result map value and type, error nil-ness)",
         "type-directed, boundary-biased generation; each rule's value compared with an independent interpreter of the reference semantics written from the property",
         "trusts the reference interpreter in harness/gen (about 300 lines) and strconv for literal values; NaN compares as in float64 (unordered); a fault below the right operand of && / || is a fault (both operands are evaluated); a generated text the builder rejects is a violation", "4 C01"),
 "C02": ("exploration", "E1 generator + reference interpreter", "runtime monitoring: executed-path trace (observer call at every basic block), final locals, host state and result of generated statement programs compared with the reference execution",
         "exploration over statement trees; observer ids make the executed path itself the observation", "map-iteration-order-dependent programs are not generated (bag comparison for map loops)", "4 C02"),
 "C03": ("exploration", "E1 generator + reference interpreter", "runtime monitoring: exhaustive source-kind x target conversion matrix plus random host-access programs; typed read-backs through observers and DeepEqual of the host state against the reference model",
         "the matrix part enumerates a finite catalog completely in both tiers; the random part explores", "only stores the property promises are decided", "4 C03"),
 "C08": ("exploration", "algebra histories", "runtime monitoring: sequential model-based histories on one RuleBuilder; after every operation the sort-model trace (version tags), result map and IsExist are compared with a map model",
         "exploration over operation histories (full / incremental / removal / failing texts, earlier texts pushed again)", "stored description is read through the exported Kc field because no public accessor exists", "4 C08"),
 "C18": ("exploration", "E1 generator + reference interpreter", "runtime monitoring: sequenced observer events of generated conc blocks (exactly-once, join before the next statement with laggard holds, visibility of assignments, error propagation, no late events)",
         "exploration over member mixes, failing subsets and GOMAXPROCS", "members touch disjoint state; holds only provoke", "4 C18"),
 "C20": ("exploration", "line-citation monitor", "runtime monitoring: generated multi-line texts with exactly one faulty construct on a known line; every 'line N, column' citation in the returned error is compared with that line, must-cite classes must cite",
         "exploration over fault classes x enclosing statement kinds x placements, full and incremental installs, texts delivered twice at different line offsets", "this is the only check that reads error texts (the property is about them); the citation pattern is a regexp", "4 C20"),
 "C10": ("exploration", "compile fuzzer", "runtime monitoring: differential fuzzing of the five compile entry points (token-level mutants, valid texts, raw bytes; on pre-loaded builders / pools and in states produced by earlier removals, clears and incremental updates) with before/after observation of the installed rule set through executions and queries",
         "exploration; crash and hang of a compile entry point are violations (child processes with journals)", "accept/reject is compared across entry points, error texts are not inspected", "4 C10"),
 "C06": ("exploration", "E3 pool storms", "runtime monitoring: request-unique ids echoed by rules into results, the request's own objects and observers during storms through all 24 pool methods; stale-key probes on every instance; result maps re-compared after the storm",
         "exploration over schedules (client goroutines, holds inside rules, hook jitter, GOMAXPROCS) and pool sizes", "identity checks on values only", "4 C06"),
 "C07": ("exploration", "E4 version histories", "runtime monitoring: version-tagged rules, client-boundary call/return history of updates and executions, offline checker for one-version-per-execution and the two real-time clauses; deterministic torn-read probes for every pool method",
         "probes enumerate 24 methods x 3 update kinds completely; histories explore interleavings with hook-point delays", "regular-register clauses of the property, deliberately not linearizability (DESIGN section 6)", "4 C07"),
 "C16": ("exploration", "E3/E4 management histories", "runtime monitoring: sequential model-based management histories; queries compared with a map model; max simultaneous gated requests force an execution onto every instance, each validated by the E2 oracle",
         "exploration over operation sequences and pool sizes", "pigeonhole argument needs all max requests inside rule bodies at once (checked, else inconclusive)", "4 C16"),
 "C17": ("exploration", "E3 pool storms", "runtime monitoring: injected gate counts rule bodies in flight; hook-fed shadow of the free / in-flight sets under the pool's own locks; conservation at quiescence; bounded-progress checks for waiters and re-saturation",
         "exploration over arrival orders, faults (rule errors, panicking functions) and pool sizes", "the only wall-clock verdicts are 20 s progress bounds (normal latency < 1 ms)", "4 C17"),
 "C09": ("fault_enumeration", "E2 trace monitor + fault catalog", "runtime monitoring with fault injection by construction: complete fault-kind x construct catalog driven through all entry points in child processes with journals (panic into the caller, process death, hang, nil error after a fault, policy for the healthy rules, healthy follow-up call), plus random ill-typed programs",
         "the catalog part enumerates a finite fault list completely (thorough: x all 45 entry points); the random part explores", "a fault is injected by writing the faulty construct into the rule; hang bound 30 s per case", "4 C09"),
 "C19": ("exploration", "E6 race harness", "Go race detector (-race build of the worker, halt_on_error=0) over the concurrency scenario families; every WARNING: DATA RACE block is parsed, attributed by innermost non-runtime frame and deduplicated by access-site pair",
         "sanitizer run over repeated, seed-varied concurrent workloads; silence covers what was executed", "workloads are race-free on the user side by construction; reports wholly inside the ANTLR runtime are out of scope", "4 C19"),
 "C15": ("exploration", "E2 trace monitor", "runtime monitoring: rules sharing local names, readers-before-write must fault and writers must get their own value back, in every model, repeated calls and concurrent duplicates",
         "exploration; deterministic leak probe rounds in every case", "a leak must change a returned value, let a reader succeed or change what the host sees", "4 C15"),
}
PENDING = {}
HANG = {"C04", "C05", "C07", "C11", "C12", "C13", "C14", "C16", "C18"}

def main():
    props = [json.loads(l) for l in open(os.path.join(ROOT, "properties.jsonl"))]
    checks, na = [], []
    for p in props:
        i = p["id"]
        if i in CHECKS:
            lvl, eng, tech, text, note, ref = CHECKS[i]
            checks.append({
                "property_id": i,
                "quick_cmd": "./check %s quick" % i,
                "thorough_cmd": "./check %s thorough" % i,
                "evidence_file": "/verif/evidence/%s.json" % i,
                "replay_cmd_template": "./check %s --replay {path}" % i,
                "engine": eng,
                "level_claimed": {"category": lvl, "text": text, "design_ref": "DESIGN.md section " + ref},
                "level_note": (note or "held on the executions observed; see evidence file for counts") + (". A case that does not finish within its progress bound is reported as a violation (bounded-progress restatement, DESIGN 2.5)." if i in HANG else ""),
                "technique": tech,
            })
        else:
            na.append({"property_id": i, "reason": PENDING.get(i, "check not built yet in this revision of /verif (runtime monitor planned, see DESIGN.md section 4)")})
    hooks_commits = []
    hc = os.path.join(ROOT, "HOOK_COMMITS")
    if os.path.exists(hc):
        hooks_commits = [l.strip() for l in open(hc) if l.strip()]
    m = {
        "version": 1,
        "setup_cmd": "./setup.sh",
        "hooks": {"guard": "verif (Go build tag)", "enable": "go build -tags verif (done by ./check for every run)",
                  "baseline_off_cmd": "./baseline_off.sh", "source_commits": hooks_commits, "add_only": True},
        "engines": [
            {"name": "E2 trace monitor", "path": "harness/trace", "serves_properties": ["C04","C05","C11","C12","C13","C14","C15"], "kind_free_text": "observer-function event log + specification-table oracle over real engine/pool calls"},
            {"name": "E1 generator + reference interpreter", "path": "harness/gen + harness/e1", "serves_properties": ["C01","C02","C03","C18"], "kind_free_text": "typed AST generator, printer and independent reference interpreter; differential monitor over real executions"},
            {"name": "line-citation monitor", "path": "harness/linecite", "serves_properties": ["C20"], "kind_free_text": "single-fault text generator + citation oracle"},
            {"name": "compile fuzzer", "path": "harness/cfuzz", "serves_properties": ["C10"], "kind_free_text": "token-level mutation fuzzer, five-entry-point differential driver"},
            {"name": "E3 pool storms", "path": "harness/poolmon", "serves_properties": ["C06","C17","C19"], "kind_free_text": "pool scenarios, injected gate, hook-fed shadow monitor"},
            {"name": "E4 version histories", "path": "harness/poolmon", "serves_properties": ["C07","C16"], "kind_free_text": "version-tagged rules, history checker, management model"},
            {"name": "E6 race harness", "path": "harness/cmd/vcheck/race.go + harness/families/c19.go", "serves_properties": ["C19"], "kind_free_text": "race-detector build of the worker over all concurrency scenario families, race log classifier"},
            {"name": "algebra histories", "path": "harness/algebra", "serves_properties": ["C08"], "kind_free_text": "model-based operation histories on a RuleBuilder"},
        ],
        "checks": checks,
        "not_applicable": na,
        "notes": "Technique family: runtime monitoring and sanitizers. ./check <id> <tier> rebuilds the worker from /repo's working tree with -tags verif on every run.",
    }
    json.dump(m, open(os.path.join(ROOT, "MANIFEST.json"), "w"), indent=1)
    print("checks:", len(checks), "not_applicable:", len(na))
main()
