#!/opt/veriftools/pyvenv/bin/python
import json,jsonschema,sys,glob
jsonschema.validate(json.load(open('/verif/MANIFEST.json')),json.load(open('/root/.vp/MANIFEST.schema.json')));print('manifest valid')
s=json.load(open('/root/.vp/EVIDENCE.schema.json'))
for f in sorted(glob.glob('/verif/evidence/*.json')):
    try:
        jsonschema.validate(json.load(open(f)),s);print('evidence valid',f)
    except Exception as e:
        print('INVALID',f,str(e)[:300])
