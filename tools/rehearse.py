#!/usr/bin/env python3
"""Mutation rehearsal (DESIGN section 7.2): applies hand-written realistic breaks one at a time to a
scratch worktree of /repo's HEAD and runs the checks that are supposed to catch them with
tools/try_tree.sh. Usage: rehearse.py [name-substring ...]   (results appended to notes/rehearsal.log)"""
import subprocess, sys, os, re, json, time

WT = "/tmp/rehearse_wt_%d" % os.getpid()
ENV = dict(os.environ, GOFLAGS="-mod=mod", GOPROXY="off", GOSUMDB="off", GOTOOLCHAIN="local")

# (name, file, old, new, [checks expected to fire], count of occurrences to replace (0=all))
M = [
 # --- C01
 ("c01-sub-swapped-operands", "internal/core/math.go", "return a.Int() - b.Int(), nil", "return b.Int() - a.Int(), nil", ["C01"], 1),
 ("c01-uint8-via-float", "internal/core/math.go", "if strings.HasPrefix(akind, \"uint\") {\n\t\tif strings.HasPrefix(bkind, \"int\") {\n\t\t\treturn int64(a.Uint()) * b.Int(), nil", "if strings.HasPrefix(akind, \"uint\") {\n\t\tif strings.HasPrefix(bkind, \"int\") {\n\t\t\treturn int64(float64(a.Uint()) * float64(b.Int())), nil", ["C01"], 1),
 ("c01-div-zero-guard-uint-dropped", "internal/core/math.go", "\t\tbu := b.Uint()\n\t\tif bu == 0 {", "\t\tbu := b.Uint()\n\t\tif bu == 0 && false {", ["C01", "C09"], 1),
 ("c01-and-becomes-or", "internal/base/expression.go", "b = reflect.ValueOf(flv.Bool() && frv.Bool())", "b = reflect.ValueOf(flv.Bool() || frv.Bool())", ["C01"], 1),
 ("c01-atdesc-not-reset", "internal/iparser/gengine_parser_listener.go", "\tg.ruleDescription = \"\"\n", "", ["C01"], 1),
 ("c01-le-as-lt", "internal/base/expression.go", "\t\t\t\tcase \"<=\":\n\t\t\t\t\tb = reflect.ValueOf(ll <= rr)", "\t\t\t\tcase \"<=\":\n\t\t\t\t\tb = reflect.ValueOf(ll < rr)", ["C01"], 1),
 # --- C02
 ("c02-continue-skips-step", "internal/base/for_stmt.go", "\t\t\t\tif errStatement == CONTINUEFLAG {\n\t\t\t\t\t_, err = forStmt.Assignments[1].Evaluate(dc, Vars)\n\t\t\t\t\tif err != nil {\n\t\t\t\t\t\treturn reflect.ValueOf(nil), err, false\n\t\t\t\t\t}\n\t\t\t\t\tcontinue", "\t\t\t\tif errStatement == CONTINUEFLAG {\n\t\t\t\t\tcontinue", ["C02"], 1),
 ("c02-break-continue-same-sentinel", "internal/base/continue.go", "var CONTINUEFLAG = errors.New(\"break\")", "var CONTINUEFLAG = BREAKFLAG\n\nvar _ = errors.New", ["C02"], 1),
 ("c02-forrange-drops-return", "internal/base/for_range_stmt.go", "\t\t\tif bStatement {\n\t\t\t\treturn vStatement, errStatement, bStatement\n\t\t\t}", "\t\t\tif bStatement {\n\t\t\t\t_ = vStatement\n\t\t\t\tbreak\n\t\t\t}", ["C02", "C11"], 1),
 ("c02-minus-equal-adds", "internal/base/assignment.go", "_mv, err := core.Sub(sv, mv)", "_mv, err := core.Add(sv, mv)", ["C02", "C03"], 1),
 ("c02-second-elseif-also-runs", "internal/base/if_stmt.go", "\t\t\t\tif v.Bool() {\n\t\t\t\t\treturn elseIfStmt.StatementList.Evaluate(dc, Vars)\n\t\t\t\t}", "\t\t\t\tif v.Bool() {\n\t\t\t\t\tif rv, re, rb := elseIfStmt.StatementList.Evaluate(dc, Vars); re != nil || rb {\n\t\t\t\t\t\treturn rv, re, rb\n\t\t\t\t\t}\n\t\t\t\t}", ["C02"], 1),
 # --- C03
 ("c03-args-uint16-truncated-to-uint8", "internal/core/execute.go", "params[i] = reflect.ValueOf(uint16(params[i].Int()))", "params[i] = reflect.ValueOf(uint16(uint8(params[i].Int())))", ["C03"], 1),
 ("c03-missing-key-invalid", "internal/base/map_var.go", "\t\t\t\tmv := value.MapIndex(reflect.ValueOf(m.Strkey))\n\t\t\t\tif mv.IsValid() {\n\t\t\t\t\treturn mv, nil\n\t\t\t\t} else {\n\t\t\t\t\treturn reflect.Zero(value.Type().Elem()), nil\n\t\t\t\t}", "\t\t\t\tmv := value.MapIndex(reflect.ValueOf(m.Strkey))\n\t\t\t\treturn mv, nil", ["C03", "C01"], 1),
 ("c03-float-field-from-uint-via-int", "internal/core/execute.go", "\t\t\tif strings.HasPrefix(typeName, \"uint\") {\n\t\t\t\tfield.SetFloat(float64(value.Uint()))", "\t\t\tif strings.HasPrefix(typeName, \"uint\") {\n\t\t\t\tfield.SetFloat(float64(int64(value.Uint())))", ["C03"], 1),
 ("c03-locals-before-injected", "context/data_context.go", "\t\t//user set\n\t\tdc.lockBase.Lock()\n\t\tv, ok := dc.base[variable]\n\t\tdc.lockBase.Unlock()\n\n\t\tif ok {\n\t\t\treturn v, nil\n\t\t}\n\t\t//in RuleEntity\n\t\tdc.lockVars.Lock()\n\t\tres, rok := Vars[variable]\n\t\tdc.lockVars.Unlock()\n\t\tif rok {\n\t\t\treturn res, nil\n\t\t}", "\t\t//in RuleEntity\n\t\tdc.lockVars.Lock()\n\t\tres, rok := Vars[variable]\n\t\tdc.lockVars.Unlock()\n\t\tif rok {\n\t\t\treturn res, nil\n\t\t}\n\t\t//user set\n\t\tdc.lockBase.Lock()\n\t\tv, ok := dc.base[variable]\n\t\tdc.lockBase.Unlock()\n\n\t\tif ok {\n\t\t\treturn v, nil\n\t\t}", [], 1),
 # --- C04
 ("c04-binarysearch-loop-bound", "internal/tool/tool.go", "for low <= high {", "for low < high {", ["C04", "C08"], 1),
 ("c04-selected-sort-ascending", "engine/gengine.go", "func (g *Gengine) ExecuteSelectedRulesWithControl(rb *builder.RuleBuilder, b bool, names []string) error {", "func (g *Gengine) ExecuteSelectedRulesWithControl(rb *builder.RuleBuilder, b bool, names []string) error {\n\tdefer func() {}()", [], 1),
 ("c04-continue-returns-nil", "engine/gengine.go", "\tif len(eMsg) > 0 {\n\t\treturn errors.New(fmt.Sprintf(\"%+v\", eMsg))\n\t}\n\treturn nil\n}\n\n/**\nsort execute model\n\nwhen b is true it means when there are many rules， if one rule execute error，continue to execute rules after the occur error rule;", "\tif len(eMsg) > 1 {\n\t\treturn errors.New(fmt.Sprintf(\"%+v\", eMsg))\n\t}\n\treturn nil\n}\n\n/**\nsort execute model\n\nwhen b is true it means when there are many rules， if one rule execute error，continue to execute rules after the occur error rule;", ["C04", "C09"], 1),
 # --- C05
 ("c05-mix-wait-removed", "engine/gengine.go", "\t\t\t\twg.Done()\n\t\t\t}()\n\t\t}\n\t\twg.Wait()\n\t}\n\n\tif len(eMsg) > 0 {\n\t\treturn errors.New(fmt.Sprintf(\"%+v\", eMsg))\n\t}\n\treturn nil\n}\n\n/**\n mix execute model", "\t\t\t\twg.Done()\n\t\t\t}()\n\t\t}\n\t}\n\n\tif len(eMsg) > 0 {\n\t\treturn errors.New(fmt.Sprintf(\"%+v\", eMsg))\n\t}\n\treturn nil\n}\n\n/**\n mix execute model", ["C05", "C11"], 1),
 ("c05-nm-window-off-by-one", "engine/gengine.go", "\tmRules := rb.Kc.SortRules[nSort:][:mConcurrent]\n\tvar wg sync.WaitGroup\n\twg.Add(mConcurrent)", "\tmRules := rb.Kc.SortRules[nSort-1:][:mConcurrent]\n\tvar wg sync.WaitGroup\n\twg.Add(mConcurrent)", ["C05"], 1),
 ("c05-nconc-mconc-first-wait-removed", "engine/gengine.go", "\tnwg.Wait()\n\n\tif !b {\n\t\tif len(eMsg) > 0 {\n\t\t\treturn errors.New(fmt.Sprintf(\"%+v\", eMsg))\n\t\t}\n\t}\n\n\t//mConcurrent\n\tmRules := rb.Kc.SortRules[nConcurrent:][:mConcurrent]", "\tif !b {\n\t\tnwg.Wait()\n\t\tif len(eMsg) > 0 {\n\t\t\treturn errors.New(fmt.Sprintf(\"%+v\", eMsg))\n\t\t}\n\t}\n\n\t//mConcurrent\n\tmRules := rb.Kc.SortRules[nConcurrent:][:mConcurrent]", ["C05"], 1),
 ("c05-inverse-last-in-fanout", "engine/gengine.go", "\tv, e, bx := rules[length-1].Execute(rb.Dc)\n\tif bx {\n\t\tg.addResult(rules[length-1].RuleName, v)\n\t}\n\treturn e\n}\n\n//inverse mix model with user selected", "\tgo func() {}()\n\tv, e, bx := rules[0].Execute(rb.Dc)\n\tif bx {\n\t\tg.addResult(rules[0].RuleName, v)\n\t}\n\treturn e\n}\n\n//inverse mix model with user selected", ["C05"], 1),
 # --- C06
 ("c06-clearinjected-skipped-for-dag", "engine/gengine_pool.go", "\tdefer func() {\n\t\tgw.clearInjected(getKeys(data)...)\n\t\tgp.putGengineLocked(gw)\n\t}()\n\n\te = gw.gengine.ExecuteDAGModel(gw.rulebuilder, dag)", "\tdefer func() {\n\t\tgp.putGengineLocked(gw)\n\t}()\n\n\te = gw.gengine.ExecuteDAGModel(gw.rulebuilder, dag)", ["C06"], 1),
 ("c06-result-map-reused", "engine/gengine.go", "func (g *Gengine) ExecuteConcurrent(rb *builder.RuleBuilder) error {\n\n\t//check rb\n\tif rb == nil {\n\t\treturn errors.New(\"ruleBuilder is nil\")\n\t}\n\n\tg.returnResult = make(map[string]interface{})", "func (g *Gengine) ExecuteConcurrent(rb *builder.RuleBuilder) error {\n\n\t//check rb\n\tif rb == nil {\n\t\treturn errors.New(\"ruleBuilder is nil\")\n\t}\n\n\tif g.returnResult == nil {\n\t\tg.returnResult = make(map[string]interface{})\n\t}\n\tfor k := range g.returnResult {\n\t\tdelete(g.returnResult, k)\n\t}", ["C06", "C19"], 1),
 ("c06-put-before-cleanup", "engine/gengine_pool.go", "\tdefer func() {\n\t\tgw.clearInjected(getKeys(data)...)\n\t\tgp.putGengineLocked(gw)\n\t}()\n\n\te = gw.gengine.ExecuteSelectedRules(gw.rulebuilder, names)", "\tdefer func() {\n\t\tgp.putGengineLocked(gw)\n\t\tgw.clearInjected(getKeys(data)...)\n\t}()\n\n\te = gw.gengine.ExecuteSelectedRules(gw.rulebuilder, names)", ["C06", "C19"], 1),
 # --- C07
 ("c07-snapshot-not-taken", "engine/gengine_pool.go", "\trb := &builder.RuleBuilder{Kc: gp.rbSlice[tag].Kc, Dc: gp.rbSlice[tag].Dc}\n\tgp.kcLock.RUnlock()\n\treturn rb", "\trb := gp.rbSlice[tag]\n\tgp.kcLock.RUnlock()\n\treturn rb", ["C07", "C19"], 1),
 ("c07-publish-max-minus-one", "engine/gengine_pool.go", "\tfor i := 0; i < int(gp.max); i++ {\n\t\tgp.rbSlice[i].Kc = kc\n", "\tfor i := 0; i < int(gp.max)-1; i++ {\n\t\tgp.rbSlice[i].Kc = kc\n", ["C07", "C16"], 1),
 ("c07-incremental-edits-live-container", "engine/gengine_pool.go", "\trb.Kc = &base.KnowledgeContext{\n\t\tRuleEntities:      newRuleEntities,\n\t\tSortRules:         newSortRules,\n\t\tSortRulesIndexMap: sortRulesIndexMap,\n\t}", "\trb.Kc.RuleEntities = newRuleEntities\n\trb.Kc.SortRules = newSortRules\n\trb.Kc.SortRulesIndexMap = sortRulesIndexMap", ["C07", "C19"], 1),
 # --- C08
 ("c08-old-slot-not-deleted", "builder/rule_builder.go", "\t\t\t\tnewSortRules := append(newSortRules[:index], newSortRules[index+1:]...)\n\t\t\t\t//search location to insert", "\t\t\t\tnewSortRules := newSortRules\n\t\t\t\t//search location to insert", ["C08"], 1),
 ("c08-remove-keeps-first", "builder/rule_builder.go", "\t\t\tif delName == name {\n\t\t\t\tflag = false\n\t\t\t\tbreak\n\t\t\t}", "\t\t\tif delName == name && len(newRuleEntities) > 0 {\n\t\t\t\tflag = false\n\t\t\t\tbreak\n\t\t\t}", ["C08"], 1),
 # --- C09
 ("c09-rule-recover-removed", "internal/base/rule_entity.go", "\t\tif p := recover(); p != nil {", "\t\tif p := error(nil); p != nil {", ["C09", "C01"], 1),
 ("c09-loop-bound-removed", "internal/base/for_stmt.go", "\t\tif iCount > maxExecuteNum {", "\t\tif iCount > maxExecuteNum && false {", ["C09"], 1),
 ("c09-error-dropped-in-dag-fanout", "engine/gengine.go", "\t\t\t\t\tif e != nil {\n\t\t\t\t\t\terrLock.Lock()\n\t\t\t\t\t\teMsg = append(eMsg, fmt.Sprintf(\"rule: \\\"%s\\\" executed, error:\\n %+v \", rr.RuleName, e))\n\t\t\t\t\t\terrLock.Unlock()\n\t\t\t\t\t}\n\t\t\t\t\tmwg.Done()\n\t\t\t\t}()\n\t\t\t}\n\t\t\tmwg.Wait()\n\t\t}\n\t\tif len(eMsg) > 0 {", "\t\t\t\t\tif e != nil && len(rules) > 1 {\n\t\t\t\t\t\terrLock.Lock()\n\t\t\t\t\t\teMsg = append(eMsg, fmt.Sprintf(\"rule: \\\"%s\\\" executed, error:\\n %+v \", rr.RuleName, e))\n\t\t\t\t\t\terrLock.Unlock()\n\t\t\t\t\t}\n\t\t\t\t\tmwg.Done()\n\t\t\t\t}()\n\t\t\t}\n\t\t\tmwg.Wait()\n\t\t}\n\t\tif len(eMsg) > 0 {", ["C09", "C13"], 1),
 ("c09-methodcall-recover-removed", "internal/base/method_call.go", "\t\tif e := recover(); e != nil {", "\t\tif e := error(nil); e != nil {", ["C09"], 1),
 # --- C10
 ("c10-incremental-installs-before-listener-check", "builder/rule_builder.go", "\tif len(listener.ParseErrors) > 0 {\n\t\treturn errors.New(fmt.Sprintf(\"%+v\", listener.ParseErrors))\n\t}\n\n\tif len(kc.RuleEntities) == 0 {\n\t\treturn errors.New(fmt.Sprintf(\"no rules need to update or add.\"))\n\t}", "\tif len(kc.RuleEntities) == 0 {\n\t\treturn errors.New(fmt.Sprintf(\"no rules need to update or add.\"))\n\t}", ["C10", "C08"], 1),
 ("c10-duplicate-check-dropped", "internal/iparser/gengine_parser_listener.go", "\tif _, ok := g.KnowledgeContext.RuleEntities[entity.RuleName]; ok {", "\tif _, ok := g.KnowledgeContext.RuleEntities[entity.RuleName]; ok && false {", ["C10", "C08"], 1),
 ("c10-pool-full-no-lexer-listener", "builder/rule_builder.go", "\tlexer := parser.NewgengineLexer(in)\n\tlexerErrListener := iparser.NewGengineErrorListener()\n\tlexer.AddErrorListener(lexerErrListener)\n\tstream := antlr.NewCommonTokenStream(lexer, antlr.TokenDefaultChannel)\n\tlistener := iparser.NewGengineParserListener(kc)", "\tlexer := parser.NewgengineLexer(in)\n\tlexerErrListener := iparser.NewGengineErrorListener()\n\tstream := antlr.NewCommonTokenStream(lexer, antlr.TokenDefaultChannel)\n\tlistener := iparser.NewGengineParserListener(kc)", ["C10"], 1),
 # --- C11
 ("c11-missing-reset-in-mix", "engine/gengine.go", "func (g *Gengine) ExecuteMixModel(rb *builder.RuleBuilder) error {\n\n\t//check rb\n\tif rb == nil {\n\t\treturn errors.New(\"ruleBuilder is nil\")\n\t}\n\n\tg.returnResult = make(map[string]interface{})", "func (g *Gengine) ExecuteMixModel(rb *builder.RuleBuilder) error {\n\n\t//check rb\n\tif rb == nil {\n\t\treturn errors.New(\"ruleBuilder is nil\")\n\t}\n\n\tif g.returnResult == nil {\n\t\tg.returnResult = make(map[string]interface{})\n\t}", ["C11", "C06"], 1),
 ("c11-entry-for-nonreturning", "engine/gengine.go", "\t\tv, e, bx := rr.Execute(rb.Dc)\n\t\tif bx {\n\t\t\tg.addResult(rr.RuleName, v)\n\t\t}\n\t\tif e != nil {\n\t\t\teMsg = append(eMsg, fmt.Sprintf(\"rule: \\\"%s\\\" executed, error:\\n %+v \", rr.RuleName, e))\n\t\t}", "\t\tv, e, bx := rr.Execute(rb.Dc)\n\t\tif bx || e == nil {\n\t\t\tg.addResult(rr.RuleName, v)\n\t\t}\n\t\tif e != nil {\n\t\t\teMsg = append(eMsg, fmt.Sprintf(\"rule: \\\"%s\\\" executed, error:\\n %+v \", rr.RuleName, e))\n\t\t}", ["C11"], 1),
 # --- C12
 ("c12-asgiven-resorted", "engine/gengine.go", "\tif len(rules) < 1 {\n\t\treturn errors.New(fmt.Sprintf(\"no rule has been selected, names=%+v\", sortedNames))\n\t}\n\n\tvar eMsg []string", "\tif len(rules) < 1 {\n\t\treturn errors.New(fmt.Sprintf(\"no rule has been selected, names=%+v\", sortedNames))\n\t}\n\tif len(rules) > 3 {\n\t\tsort.SliceStable(rules, func(i, j int) bool { return rules[i].Salience > rules[j].Salience })\n\t}\n\n\tvar eMsg []string", ["C12"], 1),
 ("c12-selected-concurrent-runs-all", "engine/gengine.go", "\t// len(rule) >= 2\n\tvar wg sync.WaitGroup\n\twg.Add(len(rules))\n\tfor _, r := range rules {", "\t// len(rule) >= 2\n\tif len(rules) == len(names) && len(names) > 4 {\n\t\trules = rb.Kc.SortRules\n\t}\n\tvar wg sync.WaitGroup\n\twg.Add(len(rules))\n\tfor _, r := range rules {", ["C12"], 1),
 # --- C13
 ("c13-layer-wait-removed", "engine/gengine.go", "\t\t\tmwg.Wait()\n\t\t}\n\t\tif len(eMsg) > 0 {", "\t\t\tif len(rules) < 3 {\n\t\t\t\tmwg.Wait()\n\t\t\t}\n\t\t}\n\t\tif len(eMsg) > 0 {", ["C13", "C11"], 1),
 ("c13-failure-check-after-loop", "engine/gengine.go", "\t\tif len(eMsg) > 0 {\n\t\t\treturn errors.New(fmt.Sprintf(\"%+v\", eMsg))\n\t\t}\n\n\t}\n\treturn nil\n}", "\t}\n\tif len(eMsg) > 0 {\n\t\treturn errors.New(fmt.Sprintf(\"%+v\", eMsg))\n\t}\n\treturn nil\n}", ["C13"], 1),
 # --- C14
 ("c14-tag-read-before-loop", "engine/gengine.go", "\tvar eMsg []string\n\tfor _, r := range rb.Kc.SortRules {\n\t\tv, err, bx := r.Execute(rb.Dc)\n\t\tif bx {\n\t\t\tg.addResult(r.RuleName, v)\n\t\t}\n\t\tif err != nil {\n\t\t\tif b {\n\t\t\t\teMsg = append(eMsg, fmt.Sprintf(\"rule: \\\"%s\\\" executed, error:\\n %+v \", r.RuleName, err))\n\t\t\t} else {\n\t\t\t\treturn errors.New(fmt.Sprintf(\"rule: \\\"%s\\\" executed, error:\\n %+v \", r.RuleName, err))\n\t\t\t}\n\t\t}\n\n\t\tif sTag.StopTag {", "\tvar eMsg []string\n\tstop := sTag.StopTag\n\tfor _, r := range rb.Kc.SortRules {\n\t\tv, err, bx := r.Execute(rb.Dc)\n\t\tif bx {\n\t\t\tg.addResult(r.RuleName, v)\n\t\t}\n\t\tif err != nil {\n\t\t\tif b {\n\t\t\t\teMsg = append(eMsg, fmt.Sprintf(\"rule: \\\"%s\\\" executed, error:\\n %+v \", r.RuleName, err))\n\t\t\t} else {\n\t\t\t\treturn errors.New(fmt.Sprintf(\"rule: \\\"%s\\\" executed, error:\\n %+v \", r.RuleName, err))\n\t\t\t}\n\t\t}\n\n\t\tif stop {", ["C14"], 1),
 ("c14-mix-ignores-tag", "engine/gengine.go", "\tif !sTag.StopTag {\n\t\tif (len(rules) - 1) >= 1 {", "\tif !sTag.StopTag || len(rules) > 4 {\n\t\tif (len(rules) - 1) >= 1 {", ["C14"], 1),
 # --- C15
 ("c15-locals-hoisted-to-entity", "internal/base/rule_entity.go", "\tv, e, b := r.RuleContent.Execute(dc, make(map[string]reflect.Value))", "\tif r.vars == nil {\n\t\tr.vars = make(map[string]reflect.Value)\n\t}\n\tv, e, b := r.RuleContent.Execute(dc, r.vars)", ["C15"], 1),
 # --- C16
 ("c16-remove-not-published", "engine/gengine_pool.go", "\tgp.kcLock.RLock()\n\tclear := gp.clear\n\tgp.kcLock.RUnlock()\n\tgp.publish(gp.ruleBuilder.Kc, clear)\n\treturn nil", "\tgp.kcLock.RLock()\n\tclear := gp.clear\n\tgp.kcLock.RUnlock()\n\tif len(ruleNames) > 1 {\n\t\tgp.publish(gp.ruleBuilder.Kc, clear)\n\t}\n\treturn nil", ["C16", "C07"], 1),
 ("c16-execmodel-unvalidated", "engine/gengine_pool.go", "\tif execModel != SortModel && execModel != ConcurrentModel && execModel != MixModel && execModel != InverseMixModel {\n\t\treturn errors.New(fmt.Sprintf(\"exec model must be SORT_MODEL(1) or CONCOURRENT_MODEL(2) or MIX_MODEL(3) or INVERSE_MIX_MODEL(4), now it is %d\", execModel))\n\t} else {\n\t\tgp.kcLock.Lock()", "\tif execModel < SortModel {\n\t\treturn errors.New(fmt.Sprintf(\"exec model must be SORT_MODEL(1) or CONCOURRENT_MODEL(2) or MIX_MODEL(3) or INVERSE_MIX_MODEL(4), now it is %d\", execModel))\n\t} else {\n\t\tgp.kcLock.Lock()", ["C16"], 1),
 ("c16-clear-flag-not-reset-by-incremental", "engine/gengine_pool.go", "\t//update instance\n\tgp.publish(gp.ruleBuilder.Kc, false)", "\t//update instance\n\tgp.publish(gp.ruleBuilder.Kc, gp.clear)", ["C16"], 1),
 # --- C17
 ("c17-no-handback-on-error-path", "engine/gengine_pool.go", "\tdefer func() {\n\t\tgw.clearInjected(getKeys(data)...)\n\t\tgp.putGengineLocked(gw)\n\t}()\n\n\te = gw.gengine.ExecuteSelectedRulesConcurrent(gw.rulebuilder, names)\n\treturnResultMap, _ = gw.gengine.GetRulesResultMap()\n\treturn e, returnResultMap", "\te = gw.gengine.ExecuteSelectedRulesConcurrent(gw.rulebuilder, names)\n\tif e != nil {\n\t\treturn e, returnResultMap\n\t}\n\tgw.clearInjected(getKeys(data)...)\n\tgp.putGengineLocked(gw)\n\treturnResultMap, _ = gw.gengine.GetRulesResultMap()\n\treturn e, returnResultMap", ["C17"], 1),
 ("c17-pop-without-reslice", "engine/gengine_pool.go", "\t\t\tgw := gp.additionGengines[0]\n\t\t\tgp.additionGengines = gp.additionGengines[1:]", "\t\t\tgw := gp.additionGengines[0]\n\t\t\tif numAddition > 1 {\n\t\t\t\tgp.additionGengines = gp.additionGengines[1:]\n\t\t\t}", ["C17", "C06"], 1),
 # --- C18
 ("c18-wg-short-for-threelevel", "internal/base/conc_statement.go", "\tl := aLen + fLen + mLen + tLen\n\tif l <= 0 {", "\tl := aLen + fLen + mLen + tLen\n\tif tLen > 1 {\n\t\tl--\n\t}\n\tif l <= 0 {", ["C18"], 1),
 ("c18-errors-not-consulted-for-methods", "internal/base/conc_statement.go", "\t\t\t\t\t_, e := meth.Evaluate(dc, Vars)\n\t\t\t\t\tif e != nil {", "\t\t\t\t\t_, e := meth.Evaluate(dc, Vars)\n\t\t\t\t\tif e != nil && false {", ["C18", "C09"], 1),
 # --- C19
 ("c19-addresult-lock-removed", "engine/gengine.go", "\tg.lock.Lock()\n\tdefer g.lock.Unlock()\n\tg.returnResult[name] = returnResult", "\tg.returnResult[name] = returnResult", ["C19"], 1),
 ("c19-lockvars-removed-on-write", "context/data_context.go", "\t\t\tdc.lockVars.Lock()\n\t\t\tVars[variable] = newValue\n\t\t\tdc.lockVars.Unlock()", "\t\t\tVars[variable] = newValue", ["C19"], 1),
 ("c19-execmodel-unsynchronised", "engine/gengine_pool.go", "func (gp *GenginePool) GetExecModel() int {\n\tgp.kcLock.RLock()\n\tdefer gp.kcLock.RUnlock()\n\treturn gp.execModel", "func (gp *GenginePool) GetExecModel() int {\n\treturn gp.execModel", ["C19"], 1),
 # --- C20
 ("c20-mathexpr-stop-line", "internal/iparser/gengine_parser_listener.go", "\texpr := g.Stack.Pop().(*base.MathExpression)\n\n\texpr.Code = ctx.GetText()\n\texpr.LineNum = ctx.GetStart().GetLine()", "\texpr := g.Stack.Pop().(*base.MathExpression)\n\n\texpr.Code = ctx.GetText()\n\texpr.LineNum = ctx.GetStop().GetLine() - 1", ["C20"], 1),
 ("c20-methodcall-position-dropped", "internal/iparser/gengine_parser_listener.go", "\texpr := g.Stack.Pop().(*base.MethodCall)\n\n\texpr.Code = ctx.GetText()\n\texpr.LineNum = ctx.GetStart().GetLine()", "\texpr := g.Stack.Pop().(*base.MethodCall)\n\n\texpr.Code = ctx.GetText()", ["C20"], 1),
]

def sh(cmd, **kw):
    return subprocess.run(cmd, shell=True, env=ENV, capture_output=True, text=True, **kw)

def main():
    sel = sys.argv[1:]
    sh(f"git -C /repo worktree remove --force {WT}; git -C /repo worktree prune")
    r = sh(f"git -C /repo worktree add -q {WT} HEAD")
    if r.returncode: print(r.stderr); sys.exit(2)
    os.makedirs("/verif/notes", exist_ok=True)
    log = open("/verif/notes/rehearsal.log", "a")
    try:
        for name, f, old, new, checks, cnt in M:
            if sel and not any(s in name for s in sel): continue
            p = os.path.join(WT, f)
            src = open(p).read()
            if src.count(old) < 1:
                print(f"{name}: PATTERN NOT FOUND in {f}"); continue
            if name == "c15-locals-hoisted-to-entity":
                src2 = src.replace(old, new, 1).replace("\tRuleContent     *RuleContent\n}", "\tRuleContent     *RuleContent\n\tvars            map[string]reflect.Value\n}")
            elif name == "c04-selected-sort-ascending":
                src2 = src  # placeholder, replaced below
                src2 = src.replace("\tif len(rules) >= 2 {\n\t\tsort.SliceStable(rules, func(i, j int) bool {\n\t\t\treturn rules[i].Salience > rules[j].Salience\n\t\t})\n\t}\n\n\tvar eMsg []string\n\tfor _, rule := range rules {\n\t\trr := rule\n\t\tv, e, bx := rr.Execute(rb.Dc)\n\t\tif bx {\n\t\t\tg.addResult(rr.RuleName, v)\n\t\t}\n\t\tif e != nil {\n\t\t\tif b {",
                                   "\tif len(rules) >= 2 {\n\t\tsort.SliceStable(rules, func(i, j int) bool {\n\t\t\treturn rules[i].Salience >= rules[j].Salience\n\t\t})\n\t}\n\n\tvar eMsg []string\n\tfor _, rule := range rules {\n\t\trr := rule\n\t\tv, e, bx := rr.Execute(rb.Dc)\n\t\tif bx {\n\t\t\tg.addResult(rr.RuleName, v)\n\t\t}\n\t\tif e != nil {\n\t\t\tif b {", 1)
            else:
                src2 = src.replace(old, new, cnt if cnt else -1)
            open(p, "w").write(src2)
            b = sh(f"cd {WT} && go build ./engine/ ./builder/ ./context/ ./internal/...")
            if b.returncode:
                print(f"{name}: DOES NOT BUILD: {b.stderr[:300]}"); open(p, "w").write(src); continue
            res = {}
            for c in (checks or []):
                o = sh(f"/verif/tools/try_tree.sh {WT} {c} quick")
                last = o.stdout.strip().splitlines()[-1] if o.stdout.strip() else o.stderr[-200:]
                m = re.search(r"violations=(\d+)", last)
                crashes = re.search(r"crashes=(\d+)", last)
                res[c] = (int(m.group(1)) if m else -1, int(crashes.group(1)) if crashes else -1)
            open(p, "w").write(src)
            line = f"{time.strftime('%H:%M:%S')} {name}: " + " ".join(f"{c}:viol={v},crash={cr}" for c, (v, cr) in res.items())
            missed = [c for c, (v, cr) in res.items() if v <= 0]
            line += ("   MISSED by " + ",".join(missed)) if missed else "   all expected checks fired"
            print(line); log.write(line + "\n"); log.flush()
    finally:
        sh(f"git -C /repo worktree remove --force {WT}; git -C /repo worktree prune")

main()
