package gen

import (
	"math"
	"math/rand"
	"reflect"
	"strings"
	"sync"
	"time"
)

// Emb and DeepEmb are EMBEDDED in Host and Inner: their fields are promoted (H.EI, H.In.DX, H.Pn.DX are
// ordinary Go fields of the injected data).
type Emb struct {
	EI int64
	EU uint16
	EF float64
	ES string
}

type DeepEmb struct{ DX int32 }

// Named types over the DSL's own kinds: fields of these types are read, compared, computed with and
// assigned like their kind.
type Level int64
type Name string
type Ratio float64
type Flag bool

// Inner is reached through two-level paths H.In.X (struct value) and H.Pn.X (struct pointer).
type Inner struct {
	X  int64
	Y  uint16
	Z  float64
	W  int8
	S  string
	B  bool
	F3 float32
	DeepEmb
}

// Meth is a method target with value receiver (callable through H.In.Sum / H.Pn.Sum).
func (in Inner) Sum(a int64, b uint16) int64 { return in.X + a + int64(b) }

// Bump has a POINTER receiver: callable through the pointer field H.Pn, and it changes the host's object.
func (in *Inner) Bump(d int8) int64 { in.X += int64(d); return in.X }

// Host is the pointer-injected struct with every numeric width.
type Host struct {
	I   int
	I8  int8
	I16 int16
	I32 int32
	I64 int64
	U   uint
	U8  uint8
	U16 uint16
	U32 uint32
	U64 uint64
	F32 float32
	F64 float64
	S   string
	B   bool
	In  Inner
	Pn  *Inner
	MS  map[string]int64
	MI  map[int]string
	SL  []int32
	AR  [4]uint8
	Emb
	Lv  Level
	Dur time.Duration
	Nm  Name
	Rt  Ratio
	Fl  Flag
	IS  []Inner // slice of structs: an element can be put into a local and its fields / methods used
	SL2 []int32 // a second slice of SL's type: `H.SL = H.SL2` replaces the field's value as a whole
	AW  [3]int64 // array field whose elements rules store into (locals bound to the whole array keep its value)

	rec *Recorder
}

// TraceEv is one observer call with the typed arguments it received.
type TraceEv struct {
	ID   int64
	Args []interface{}
}

// Recorder collects what injected functions and methods received (thread-safe).
type Recorder struct {
	mu  sync.Mutex
	Evs []TraceEv
}

func (r *Recorder) add(id int64, args ...interface{}) {
	r.mu.Lock()
	r.Evs = append(r.Evs, TraceEv{ID: id, Args: args})
	r.mu.Unlock()
}

func (r *Recorder) Snapshot() []TraceEv {
	r.mu.Lock()
	defer r.mu.Unlock()
	return append([]TraceEv{}, r.Evs...)
}

// Methods of Host (pointer receiver): record typed arguments, return first result.
func (h *Host) Rec3(id int64, a int8, b uint32, c float32) int64 {
	h.rec.add(id, a, b, c)
	return int64(a) + int64(b)
}
func (h *Host) RecS(id int64, s string, b bool) string {
	h.rec.add(id, s, b)
	return s + "!"
}
func (h *Host) GetI64() int64 { return h.I64 }

// Repoint lets the pointer field Pn point to ANOTHER object (a copy whose X is larger by 1000): what a rule
// reads through H.Pn afterwards is the new object.
func (h *Host) Repoint() int64 {
	n := *h.Pn
	n.X += 1000
	h.Pn = &n
	return n.X
}

// Fixture is one complete set of injected objects. Two fixtures built from the same seed
// are identical; one goes to gengine, the other is the reference interpreter's host state.
type Fixture struct {
	H   *Host
	V   Host             // value-injected struct (reads only)
	M64 map[string]int64 // value-injected maps
	MU8 map[string]uint8
	MF  map[string]float64
	MIK map[int64]int32 // integer keys
	MK8 map[int8]uint16
	MKU map[uint16]int64
	PM  *map[string]int32 // pointer-injected map
	PMI *map[int64]int64  // pointer-injected map with integer keys
	PMS *map[string]string
	PS  *[]int64 // pointer-injected slice
	PSU *[]uint16
	PSF *[]float32
	PA  *[5]int16 // pointer-injected array
	VS  []int64   // value-injected slice (elements settable)
	VSS []string
	VA  [3]int64 // value-injected array (reads only)
	// value-injected scalars of every numeric kind
	NI   int
	NI8  int8
	NI16 int16
	NI32 int32
	NI64 int64
	NU   uint
	NU8  uint8
	NU16 uint16
	NU32 uint32
	NU64 uint64
	NF32 float32
	NF64 float64
	NS   string
	NB   bool
	// pointer-injected scalars (assignable)
	PI8  *int8
	PI64 *int64
	PU16 *uint16
	PU64 *uint64
	PF32 *float32
	PF64 *float64
	PStr *string
	PB   *bool

	Rec *Recorder
}

var I64Pool = []int64{0, 1, -1, 2, -2, 3, 7, 10, 100, -100, 127, 128, -128, -129, 255, 256, 32767, 32768, -32768, 65535, 65536,
	2147483647, 2147483648, -2147483648, 4294967295, 4294967296, 9007199254740991, 9007199254740992, 9007199254740993, -9007199254740993,
	4611686018427387904, 9223372036854775806, math.MaxInt64, math.MinInt64, math.MinInt64 + 1, 1000000007, 123456789012345678}

var U64Pool = []uint64{0, 1, 2, 3, 10, 255, 256, 65535, 65536, 4294967295, 4294967296, 9007199254740992, 9007199254740993,
	9223372036854775807, 9223372036854775808, 9223372036854775809, 18446744073709551614, math.MaxUint64, 1000000007}

var F64Pool = []float64{0, 1, -1, 0.5, -0.5, 2, 3, 1.5, 2.25, 10, 0.1, 100.75, 9007199254740992, 9007199254740994, 1e10, -1e10, 1e-3, 16777216, 16777217,
	3.4028234663852886e38, 1e300, -2.5, 4294967296, 9.223372036854775807e18}

var F32Pool = []float32{0, 1, -1, 0.5, 1.5, 2.25, -2.5, 16777216, 3.4028234663852886e38, 1e-3, 100.75, 65536}

var StrPool = []string{"", "a", "b", "ab", "abc", "B", "Z", "z", "hello world", "10", "9", "é", "a b", "aa", "50%", "%d of %s", "%"}

func pickI(r *rand.Rand, bits uint) int64 {
	for {
		v := I64Pool[r.Intn(len(I64Pool))]
		if r.Intn(4) == 0 {
			v = int64(r.Intn(41) - 20)
		}
		if bits == 64 {
			return v
		}
		lim := int64(1) << (bits - 1)
		if v >= -lim && v < lim {
			return v
		}
	}
}

func pickU(r *rand.Rand, bits uint) uint64 {
	for {
		v := U64Pool[r.Intn(len(U64Pool))]
		if r.Intn(4) == 0 {
			v = uint64(r.Intn(21))
		}
		if bits == 64 || v < uint64(1)<<bits {
			return v
		}
	}
}

// NewFixture builds the injected objects from a seed.
func NewFixture(seed int64) *Fixture {
	r := rand.New(rand.NewSource(seed))
	rec := &Recorder{}
	mkHost := func() Host {
		return Host{
			I: int(pickI(r, 64)), I8: int8(pickI(r, 8)), I16: int16(pickI(r, 16)), I32: int32(pickI(r, 32)), I64: pickI(r, 64),
			U: uint(pickU(r, 64)), U8: uint8(pickU(r, 8)), U16: uint16(pickU(r, 16)), U32: uint32(pickU(r, 32)), U64: pickU(r, 64),
			F32: F32Pool[r.Intn(len(F32Pool))], F64: F64Pool[r.Intn(len(F64Pool))],
			S: StrPool[r.Intn(len(StrPool))], B: r.Intn(2) == 0,
			In:  Inner{X: pickI(r, 64), Y: uint16(pickU(r, 16)), Z: F64Pool[r.Intn(len(F64Pool))], W: int8(pickI(r, 8)), S: StrPool[r.Intn(len(StrPool))], B: r.Intn(2) == 0, F3: F32Pool[r.Intn(len(F32Pool))], DeepEmb: DeepEmb{DX: int32(pickI(r, 32))}},
			Pn:  &Inner{X: pickI(r, 64), Y: uint16(pickU(r, 16)), Z: F64Pool[r.Intn(len(F64Pool))], W: int8(pickI(r, 8)), S: StrPool[r.Intn(len(StrPool))], B: r.Intn(2) == 0, F3: F32Pool[r.Intn(len(F32Pool))], DeepEmb: DeepEmb{DX: int32(pickI(r, 32))}},
			MS:  map[string]int64{"a": pickI(r, 64), "b": pickI(r, 64), "k3": 3},
			MI:  map[int]string{0: "zero", 1: "one", -5: "minus five"},
			SL:  []int32{int32(pickI(r, 32)), 2, int32(pickI(r, 32)), 4},
			AR:  [4]uint8{uint8(pickU(r, 8)), 1, 2, uint8(pickU(r, 8))},
			AW:  [3]int64{pickI(r, 16), 7, pickI(r, 32)},
			SL2: []int32{int32(pickI(r, 16)), 12, 13, int32(pickI(r, 32))},
			Lv:  Level(pickI(r, 64)), Dur: time.Duration(pickI(r, 32)), Nm: Name(StrPool[r.Intn(len(StrPool))]), Rt: Ratio(F64Pool[r.Intn(len(F64Pool))]), Fl: Flag(r.Intn(2) == 0),
			IS:  []Inner{{X: pickI(r, 32), Y: 3, S: "is0"}, {X: pickI(r, 64), Y: uint16(pickU(r, 16)), S: StrPool[r.Intn(len(StrPool))], B: true}},
			Emb: Emb{EI: pickI(r, 64), EU: uint16(pickU(r, 16)), EF: F64Pool[r.Intn(len(F64Pool))], ES: StrPool[r.Intn(len(StrPool))]},
			rec: rec,
		}
	}
	h := mkHost()
	v := mkHost()
	f := &Fixture{H: &h, V: v, Rec: rec}
	f.M64 = map[string]int64{"a": pickI(r, 64), "b": pickI(r, 64), "zz": 0}
	f.MU8 = map[string]uint8{"a": uint8(pickU(r, 8)), "b": 7}
	f.MF = map[string]float64{"a": F64Pool[r.Intn(len(F64Pool))], "b": 1.5}
	f.MIK = map[int64]int32{0: 10, 1: int32(pickI(r, 32)), -7: 70, 100: 5}
	f.MK8 = map[int8]uint16{0: 1, 5: uint16(pickU(r, 16)), -3: 9}
	f.MKU = map[uint16]int64{0: 4, 9: pickI(r, 64)}
	pm := map[string]int32{"a": int32(pickI(r, 32)), "b": 2}
	f.PM = &pm
	pmi := map[int64]int64{1: pickI(r, 64), -2: 22, 300: pickI(r, 64)}
	f.PMI = &pmi
	pms := map[string]string{"a": "alpha", "b": StrPool[r.Intn(len(StrPool))]}
	f.PMS = &pms
	ps := []int64{pickI(r, 64), pickI(r, 64), 3, 4, 5}
	f.PS = &ps
	psu := []uint16{uint16(pickU(r, 16)), 1, 2}
	f.PSU = &psu
	psf := []float32{1.5, F32Pool[r.Intn(len(F32Pool))], 0}
	f.PSF = &psf
	pa := [5]int16{int16(pickI(r, 16)), 1, 2, 3, int16(pickI(r, 16))}
	f.PA = &pa
	f.VS = []int64{pickI(r, 64), 20, 30, pickI(r, 64)}
	f.VSS = []string{"x", StrPool[r.Intn(len(StrPool))], "z"}
	f.VA = [3]int64{pickI(r, 64), 2, 3}
	f.NI, f.NI8, f.NI16, f.NI32, f.NI64 = int(pickI(r, 64)), int8(pickI(r, 8)), int16(pickI(r, 16)), int32(pickI(r, 32)), pickI(r, 64)
	f.NU, f.NU8, f.NU16, f.NU32, f.NU64 = uint(pickU(r, 64)), uint8(pickU(r, 8)), uint16(pickU(r, 16)), uint32(pickU(r, 32)), pickU(r, 64)
	f.NF32, f.NF64 = F32Pool[r.Intn(len(F32Pool))], F64Pool[r.Intn(len(F64Pool))]
	f.NS, f.NB = StrPool[r.Intn(len(StrPool))], r.Intn(2) == 0
	pi8, pi64, pu16, pu64 := int8(pickI(r, 8)), pickI(r, 64), uint16(pickU(r, 16)), pickU(r, 64)
	pf32, pf64, pstr, pb := F32Pool[r.Intn(len(F32Pool))], F64Pool[r.Intn(len(F64Pool))], StrPool[r.Intn(len(StrPool))], r.Intn(2) == 0
	f.PI8, f.PI64, f.PU16, f.PU64, f.PF32, f.PF64, f.PStr, f.PB = &pi8, &pi64, &pu16, &pu64, &pf32, &pf64, &pstr, &pb
	return f
}

// Table is the injected name table (same names on both sides).
func (f *Fixture) Table() map[string]interface{} {
	rec := f.Rec
	t := map[string]interface{}{
		"H": f.H, "V": f.V,
		"M64": f.M64, "MU8": f.MU8, "MF": f.MF, "MIK": f.MIK, "MK8": f.MK8, "MKU": f.MKU,
		"PM": f.PM, "PMI": f.PMI, "PMS": f.PMS, "PS": f.PS, "PSU": f.PSU, "PSF": f.PSF, "PA": f.PA, "VS": f.VS, "VSS": f.VSS, "VA": f.VA,
		"NI": f.NI, "NI8": f.NI8, "NI16": f.NI16, "NI32": f.NI32, "NI64": f.NI64,
		"NU": f.NU, "NU8": f.NU8, "NU16": f.NU16, "NU32": f.NU32, "NU64": f.NU64,
		"NF32": f.NF32, "NF64": f.NF64, "NS": f.NS, "NB": f.NB,
		"PI8": f.PI8, "PI64": f.PI64, "PU16": f.PU16, "PU64": f.PU64, "PF32": f.PF32, "PF64": f.PF64, "PStr": f.PStr, "PB": f.PB,
		// observers
		"tr":  func(id int64) { rec.add(id) },
		"tv":  func(id int64, v interface{}) { rec.add(id, v) },
		"ti":  func(id int64, a int8, b uint16, c int64, d uint64) int64 { rec.add(id, a, b, c, d); return c },
		"tf":  func(id int64, a float32, b float64) float64 { rec.add(id, a, b); return b },
		"ts":  func(id int64, s string, b bool) string { rec.add(id, s, b); return s },
		"tu":  func(id int64, a uint8, b uint32, c int, d uint) uint64 { rec.add(id, a, b, c, d); return uint64(b) },
		"t16": func(id int64, a int16, b int32) int32 { rec.add(id, a, b); return b },
		"idn": func(v int64) int64 { return v },
		// tb observes the evaluation of a condition: a condition evaluated twice shows twice in the trace
		"tb":  func(id int64, b bool) bool { rec.add(id, b); return b },
		"ix1": int64(1),
		// float64 values no literal can spell
		// zero-length containers: a forRange over them runs its body not once
		"VE": []int64{}, "ME": map[string]int64{}, "MNil": map[string]int64(nil),
		// unsigned values at the edge of the signed range (there are no unsigned literals)
		"UMaxIm1": uint64(math.MaxInt64 - 1), "UMaxI": uint64(math.MaxInt64), "UMaxI1": uint64(math.MaxInt64) + 1, "UMax": uint64(math.MaxUint64), "UZ": uint64(0), "U32Max": uint32(math.MaxUint32),
		"NNaN": math.NaN(), "NPInf": math.Inf(1), "NNInf": math.Inf(-1),
		"pass": func(v interface{}) interface{} { return v },
		// several results: the rule gets the first one
		"pr2": func(id int64, v int64) (int64, string, error) { rec.add(id, v); return v + 1, "second", nil },
		"pr0": func(id int64) { rec.add(id) },
		// mbump adds 100 to M64["zz"] and yields 1: `M64["zz"] += mbump()` reads the target AFTER the right side ran
		"mbump": func() int64 { f.M64["zz"] += 100; return 1 },
		// variadic callees: fixed parameters of other widths than the DSL's own, a typed tail
		"tvar": func(id int64, base int, rest ...int64) int64 {
			s := int64(base)
			for _, x := range rest {
				s += x
			}
			rec.add(id, base, int64(len(rest)), s)
			return s
		},
		"tvs": func(id int64, lv uint8, parts ...string) int64 {
			rec.add(id, lv, int64(len(parts)), strings.Join(parts, "|"))
			return int64(lv) + int64(len(parts))
		},
		"tvf": func(id int64, f float32, more ...float64) float64 {
			s := float64(f)
			for _, x := range more {
				s += x
			}
			rec.add(id, f, int64(len(more)), s)
			return s
		},
	}
	return t
}

// State is the host-visible part compared after an execution (reflect.DeepEqual, floats
// additionally by bits through SameState).
type State struct {
	H    Host
	HPn  Inner
	M64  map[string]int64
	MU8  map[string]uint8
	MF   map[string]float64
	MIK  map[int64]int32
	MK8  map[int8]uint16
	MKU  map[uint16]int64
	PM   map[string]int32
	PMI  map[int64]int64
	PMS  map[string]string
	PS   []int64
	PSU  []uint16
	PSF  []float32
	PA   [5]int16
	VS   []int64
	VSS  []string
	PI8  int8
	PI64 int64
	PU16 uint16
	PU64 uint64
	PF32 float32
	PF64 float64
	PStr string
	PB   bool
}

func (f *Fixture) State() State {
	h := *f.H
	h.rec = nil
	pn := *f.H.Pn
	h.Pn = nil
	return State{H: h, HPn: pn, M64: f.M64, MU8: f.MU8, MF: f.MF, MIK: f.MIK, MK8: f.MK8, MKU: f.MKU, PM: *f.PM, PMI: *f.PMI, PMS: *f.PMS, PS: *f.PS, PSU: *f.PSU, PSF: *f.PSF,
		PA: *f.PA, VS: f.VS, VSS: f.VSS, PI8: *f.PI8, PI64: *f.PI64, PU16: *f.PU16, PU64: *f.PU64, PF32: *f.PF32, PF64: *f.PF64, PStr: *f.PStr, PB: *f.PB}
}

// DiffState lists the top-level components that differ (floats by bit pattern).
func DiffState(a, b State) []string {
	var out []string
	va, vb := reflect.ValueOf(a), reflect.ValueOf(b)
	for i := 0; i < va.NumField(); i++ {
		if !deepSame(va.Field(i), vb.Field(i)) {
			out = append(out, va.Type().Field(i).Name)
		}
	}
	return out
}

func deepSame(a, b reflect.Value) bool {
	switch a.Kind() {
	case reflect.Float32, reflect.Float64:
		return math.Float64bits(a.Float()) == math.Float64bits(b.Float()) || (math.IsNaN(a.Float()) && math.IsNaN(b.Float()))
	case reflect.Struct:
		for i := 0; i < a.NumField(); i++ {
			if a.Type().Field(i).PkgPath != "" {
				continue
			}
			if !deepSame(a.Field(i), b.Field(i)) {
				return false
			}
		}
		return true
	case reflect.Slice, reflect.Array:
		if a.Len() != b.Len() {
			return false
		}
		for i := 0; i < a.Len(); i++ {
			if !deepSame(a.Index(i), b.Index(i)) {
				return false
			}
		}
		return true
	case reflect.Map:
		if a.Len() != b.Len() {
			return false
		}
		for _, k := range a.MapKeys() {
			bv := b.MapIndex(k)
			if !bv.IsValid() || !deepSame(a.MapIndex(k), bv) {
				return false
			}
		}
		return true
	case reflect.Ptr:
		if a.IsNil() || b.IsNil() {
			return a.IsNil() == b.IsNil()
		}
		return deepSame(a.Elem(), b.Elem())
	}
	return reflect.DeepEqual(a.Interface(), b.Interface())
}

// SameTrace compares two observer traces (typed arguments, floats by bits).
func SameTrace(a, b []TraceEv) bool {
	if len(a) != len(b) {
		return false
	}
	for i := range a {
		if a[i].ID != b[i].ID || len(a[i].Args) != len(b[i].Args) {
			return false
		}
		for j := range a[i].Args {
			if !SameValue(a[i].Args[j], b[i].Args[j]) {
				return false
			}
		}
	}
	return true
}
