package gen

import (
	"fmt"
	"math/rand"
)

// SG generates statement trees (C02). Every basic block starts with tr(<unique id>), so
// the observer trace is the executed path.
type SG struct {
	R       *rand.Rand
	Base    int64 // id base of this program
	next    int64
	Budget  int // statements left
	MaxNest int
	loopVar int
	keyVar  int
	newVar  int
	// BagIDs are the observer ids used inside forRange-over-map bodies (order-insensitive).
	BagIDs map[int64]bool
	Stats  map[string]int
}

func NewSG(r *rand.Rand, base int64, budget int) *SG {
	return &SG{R: r, Base: base, Budget: budget, MaxNest: 5, BagIDs: map[int64]bool{}, Stats: map[string]int{}}
}

func (g *SG) id() int64 { g.next++; return g.Base + g.next }

func ilit(v int64) *Lit { return &Lit{V: v, Text: fmt.Sprint(v)} }

func (g *SG) tr() Stmt {
	return &CallS{&CallE{Name: "tr", Args: []Expr{ilit(g.id())}}}
}

func (g *SG) tv(e Expr) Stmt {
	return &CallS{&CallE{Name: "tv", Args: []Expr{ilit(g.id()), e}}}
}

var intVars = []string{"va", "vb", "vc"}

func (g *SG) intVar() string { return intVars[g.R.Intn(len(intVars))] }

// smallInt is a small integer expression over the int locals.
func (g *SG) smallInt(d int) Expr {
	if d <= 0 || g.R.Intn(2) == 0 {
		switch g.R.Intn(5) {
		case 0, 1:
			return ilit(int64(g.R.Intn(9) - 2))
		default:
			return &Ref{g.intVar()}
		}
	}
	return &Bin{Op: []string{"+", "-", "*", "+", "-"}[g.R.Intn(5)], L: g.smallInt(d - 1), R: g.smallInt(d - 1)}
}

// cond builds a boolean condition over the locals; a quarter of the conditions are passed
// through the observer tb(id, cond) so that the number and order of condition evaluations
// is part of the trace.
func (g *SG) cond(d int) Expr {
	c := g.cond0(d)
	if g.R.Intn(4) == 0 {
		g.Stats["observed_condition"]++
		return &CallE{Name: "tb", Args: []Expr{ilit(g.id()), c}}
	}
	return c
}

func (g *SG) cond0(d int) Expr {
	switch g.R.Intn(9) {
	case 0:
		return &Ref{"vt"}
	case 1:
		return &Not{&Ref{"vt"}}
	case 2:
		if d > 0 {
			return &Bin{Op: []string{"&&", "||"}[g.R.Intn(2)], L: g.cond0(d - 1), R: g.cond0(d - 1)}
		}
		fallthrough
	case 3:
		return &Bin{Op: "==", L: &Bin{Op: "-", L: &Ref{g.intVar()}, R: &Bin{Op: "*", L: &Bin{Op: "/", L: &Ref{g.intVar()}, R: ilit(2)}, R: ilit(2)}}, R: ilit(0)}
	case 4:
		return &Lit{V: true, Text: "true"}
	case 5:
		return &Bin{Op: "!=", L: &Ref{"vs"}, R: &Lit{V: "", Text: "\"\""}}
	default:
		return &Bin{Op: cmpOps[g.R.Intn(6)], L: g.smallInt(1), R: g.smallInt(1)}
	}
}

// Prologue initialises the shared locals.
func (g *SG) Prologue() []Stmt {
	r := g.R
	vt := r.Intn(2) == 0
	vtText := "false"
	if vt {
		vtText = "true"
	}
	return []Stmt{
		g.tr(),
		&Assign{Target: "va", Op: "=", E: ilit(int64(r.Intn(7) - 1))},
		&Assign{Target: "vb", Op: ":=", E: ilit(int64(r.Intn(5)))},
		&Assign{Target: "vc", Op: "=", E: ilit(int64(r.Intn(4) + 1))},
		&Assign{Target: "vs", Op: "=", E: &Lit{V: "", Text: "\"\""}},
		&Assign{Target: "vf", Op: "=", E: &Lit{V: 1.5, Text: "1.5"}},
		&Assign{Target: "vt", Op: "=", E: &Lit{V: vt, Text: vtText}},
		// locals bound to the VALUE of a field / element of injected data: later stores into that
		// field / element must not change the local
		&Assign{Target: "vh", Op: "=", E: &Ref{"H.I64"}},
		&Assign{Target: "ve", Op: ":=", E: &Elem{Cont: "VS", KeyInt: is(1)}},
		&Assign{Target: "vn", Op: "=", E: &Ref{"H.In.X"}},
		// ... and to the value of a whole array-typed field (arrays are values, not references)
		&Assign{Target: "vw", Op: "=", E: &Ref{"H.AW"}},
		// ... and to a slice-typed field: the local keeps the slice it was given when the field gets another one
		&Assign{Target: "vl", Op: "=", E: &Ref{"H.SL"}},
	}
}

// Epilogue observes the final locals.
func (g *SG) Epilogue() []Stmt {
	return []Stmt{g.tv(&Ref{"va"}), g.tv(&Ref{"vb"}), g.tv(&Ref{"vc"}), g.tv(&Ref{"vs"}), g.tv(&Ref{"vf"}), g.tv(&Ref{"vt"}), g.tv(&Ref{"vh"}), g.tv(&Ref{"ve"}), g.tv(&Ref{"vn"}),
		g.tv(&Elem{Cont: "vw", KeyInt: is(0)}), g.tv(&Elem{Cont: "vw", KeyInt: is(1)}), g.tv(&Elem{Cont: "vw", KeyInt: is(2)}), g.tv(&Ref{"vw"}),
		g.tv(&Elem{Cont: "vl", KeyInt: is(0)}), g.tv(&Elem{Cont: "vl", KeyInt: is(3)})}
}

// Block generates a block; inLoop says whether break/continue are meaningful here.
func (g *SG) Block(nest int, inLoop bool, allowReturn bool) []Stmt {
	ss := []Stmt{g.tr()}
	n := 1 + g.R.Intn(4)
	for i := 0; i < n && g.Budget > 0; i++ {
		g.Budget--
		last := i == n-1
		ss = append(ss, g.stmt(nest, inLoop, last && allowReturn)...)
	}
	return ss
}

func (g *SG) simple() Stmt {
	r := g.R
	switch r.Intn(12) {
	case 0, 1:
		g.Stats["assign"]++
		return &Assign{Target: g.intVar(), Op: []string{"=", ":="}[r.Intn(2)], E: g.smallInt(2)}
	case 2, 3, 4:
		g.Stats["compound"]++
		op := []string{"+=", "-=", "*=", "/=", "+=", "-="}[r.Intn(6)]
		var e Expr = ilit(int64(r.Intn(4) + 1))
		if op != "/=" && r.Intn(2) == 0 {
			e = g.smallInt(1)
		} else if r.Intn(4) == 0 {
			e = &CallE{Name: "idn", Args: []Expr{ilit(int64(r.Intn(4) + 1))}} // the right side is a call
		}
		return &Assign{Target: g.intVar(), Op: op, E: e}
	case 5:
		g.Stats["compound"]++
		return &Assign{Target: "vs", Op: "+=", E: &Lit{V: "x", Text: "\"x\""}}
	case 6:
		g.Stats["compound"]++
		return &Assign{Target: "vf", Op: []string{"*=", "+=", "-=", "/="}[r.Intn(4)], E: &Lit{V: 2.0, Text: "2.0"}}
	case 7:
		g.Stats["assign"]++
		return &Assign{Target: "vt", Op: "=", E: g.cond(1)}
	case 8:
		// injected targets: plain and compound, values stay small
		g.Stats["assign_injected"]++
		t := []string{"H.I64", "H.I16", "H.U32", "H.In.X", "H.Pn.X", "H.F64"}[r.Intn(6)]
		if r.Intn(4) == 0 {
			// a plain name that is a pointer-injected scalar: `=` and `:=` alike store through the pointer
			// (the host sees the value; the rule does not read it back)
			g.Stats["assign_pointer_injected_scalar"]++
			return &Assign{Target: []string{"PI64", "PI8", "PU16"}[r.Intn(3)], Op: []string{"=", ":=", ":="}[r.Intn(3)], E: ilit(int64(r.Intn(50)))}
		}
		return &Assign{Target: t, Op: "=", E: ilit(int64(r.Intn(50)))}
	case 9:
		g.Stats["compound_injected"]++
		t := []string{"H.I64", "H.In.X", "H.Pn.X", "H.U64"}[r.Intn(4)]
		return &Assign{Target: t, Op: []string{"+=", "*="}[r.Intn(2)], E: ilit(int64(r.Intn(3) + 1))}
	case 10:
		if r.Intn(6) == 0 {
			g.Stats["compound_on_element_changed_by_its_right_side"]++
			return &Assign{Elem: &Elem{Cont: "M64", KeyStr: ss("zz")}, Op: "+=", E: &CallE{Name: "mbump"}}
		}
		g.Stats["elem_assign"]++
		k := int64(r.Intn(4))
		return &Assign{Elem: &Elem{Cont: "VS", KeyInt: &k}, Op: []string{"=", "+=", "-="}[r.Intn(3)], E: g.smallInt(1)}
	default:
		switch r.Intn(8) {
		case 7:
			switch r.Intn(4) {
			case 0:
				g.Stats["slice_field_replaced"]++
				return &Assign{Target: "H.SL", Op: "=", E: &Ref{"H.SL2"}}
			case 1:
				g.Stats["rebind_from_slice_field"]++
				return &Assign{Target: "vl", Op: "=", E: &Ref{"H.SL"}}
			}
			k := int64(r.Intn(4))
			return g.tv(&Elem{Cont: "vl", KeyInt: &k})
		case 5:
			// store into an element of the array field a local was bound to
			g.Stats["store_into_array_field"]++
			k := int64(r.Intn(3))
			return &Assign{Elem: &Elem{Cont: "H.AW", KeyInt: &k}, Op: []string{"=", "+=", "*="}[r.Intn(3)], E: ilit(int64(r.Intn(9) + 2))}
		case 6:
			k := int64(r.Intn(3))
			if r.Intn(4) == 0 {
				g.Stats["rebind_from_array_field"]++
				return &Assign{Target: "vw", Op: "=", E: &Ref{"H.AW"}}
			}
			return g.tv(&Elem{Cont: "vw", KeyInt: &k})
		case 0:
			// compound update of a local that was bound to a field value: the field stays as it is
			g.Stats["compound_on_field_bound_local"]++
			return &Assign{Target: []string{"vh", "ve", "vn"}[r.Intn(3)], Op: []string{"+=", "-=", "*="}[r.Intn(3)], E: ilit(int64(r.Intn(5) + 1))}
		case 1:
			g.Stats["rebind_from_field"]++
			return &Assign{Target: []string{"vh", "vn"}[r.Intn(2)], Op: "=", E: &Ref{[]string{"H.I64", "H.In.X", "H.Pn.X"}[r.Intn(3)]}}
		}
		return g.tv(&Ref{[]string{"va", "vb", "vc", "vs", "vf", "vt", "vh", "ve", "vn"}[r.Intn(9)]})
	}
}

func (g *SG) stmt(nest int, inLoop, mayReturn bool) []Stmt {
	r := g.R
	if nest >= g.MaxNest || g.Budget <= 0 {
		return []Stmt{g.simple()}
	}
	switch r.Intn(16) {
	case 0, 1, 2:
		g.Stats["if"]++
		x := &If{Cond: g.cond(1), Then: g.Block(nest+1, inLoop, true)}
		ne := r.Intn(3)
		if r.Intn(6) == 0 {
			ne = 4 + r.Intn(3) // a long chain
		}
		for i := 0; i < ne; i++ {
			g.Stats["elseif"]++
			x.ElseIfs = append(x.ElseIfs, ElseIf{Cond: g.cond(1), Body: g.Block(nest+1, inLoop, true)})
		}
		if r.Intn(2) == 0 {
			x.HasElse = true
			x.Else = g.Block(nest+1, inLoop, true)
		}
		return []Stmt{x}
	case 3, 4:
		g.Stats["for"]++
		g.loopVar++
		v := fmt.Sprintf("i%d", g.loopVar)
		n := int64(1 + r.Intn(5))
		f := &For{Init: &Assign{Target: v, Op: "=", E: ilit(0)}, Cond: &Bin{Op: "<", L: &Ref{v}, R: ilit(n)},
			Step: &Assign{Target: v, Op: "+=", E: ilit(1)}}
		switch r.Intn(4) {
		case 0: // counting down
			f.Init.E = ilit(n)
			f.Cond = &Bin{Op: ">", L: &Ref{v}, R: ilit(0)}
			f.Step = &Assign{Target: v, Op: "-=", E: ilit(1)}
		case 1: // step through an observer so that the step itself is traced
			f.Step = &Assign{Target: v, Op: "+=", E: &CallE{Name: "ti", Args: []Expr{ilit(g.id()), ilit(1), ilit(2), ilit(1), ilit(4)}}}
		case 2:
			f.Step = &Assign{Target: v, Op: "=", E: &Bin{Op: "+", L: &Ref{v}, R: ilit(2)}}
		}
		body := []Stmt{g.tv(&Ref{v})}
		body = append(body, g.Block(nest+1, true, true)[1:]...)
		f.Body = body
		return []Stmt{f}
	case 5:
		g.Stats["forrange_seq"]++
		g.keyVar++
		kv := fmt.Sprintf("k%d", g.keyVar)
		c := []string{"VS", "VA", "H.SL", "VSS", "H.AR", "VE", "H.AW"}[r.Intn(7)]
		if r.Intn(10) == 0 {
			// the loop variable names a pointer-injected scalar: every round stores the index through it
			// (the host sees the last index afterwards); its value is not read inside the rule
			g.Stats["forrange_key_is_injected"]++
			body := append([]Stmt{g.tr()}, g.Block(nest+1, true, true)[1:]...)
			return []Stmt{&ForRange{Key: []string{"PI64", "H.I64", "H.In.X"}[r.Intn(3)], Cont: c, Body: body}}
		}
		body := []Stmt{g.tv(&Ref{kv}), g.tv(&Elem{Cont: c, KeyVar: kv})}
		body = append(body, g.Block(nest+1, true, true)[1:]...)
		if c != "VE" {
			// one flat scope per rule: the loop variable is still there (with its last value) after the loop
			return []Stmt{&ForRange{Key: kv, Cont: c, Body: body}, g.tv(&Ref{kv})}
		}
		return []Stmt{&ForRange{Key: kv, Cont: c, Body: body}}
	case 6:
		g.Stats["forrange_map"]++
		g.keyVar++
		kv := fmt.Sprintf("k%d", g.keyVar)
		c := []string{"M64", "MIK", "H.MS", "MK8", "ME", "MNil"}[r.Intn(6)]
		id := g.id()
		g.BagIDs[id] = true
		// order-insensitive body: one traced key, commutative integer accumulation
		body := []Stmt{
			&CallS{&CallE{Name: "tv", Args: []Expr{ilit(id), &Ref{kv}}}},
			&Assign{Target: "vb", Op: "+=", E: &Elem{Cont: c, KeyVar: kv}},
			&Assign{Target: "vc", Op: "+=", E: ilit(1)},
		}
		return []Stmt{&ForRange{Key: kv, Cont: c, Body: body}}
	case 7:
		if inLoop {
			g.Stats["break"]++
			return []Stmt{&If{Cond: g.cond(1), Then: []Stmt{g.tr(), &Break{}}}}
		}
	case 8:
		if inLoop {
			g.Stats["continue"]++
			return []Stmt{&If{Cond: g.cond(1), Then: []Stmt{g.tr(), &Continue{}}}}
		}
	case 9:
		if mayReturn {
			g.Stats["return"]++
			if r.Intn(3) == 0 {
				return []Stmt{&Return{}}
			}
			return []Stmt{&Return{E: g.smallInt(2)}}
		}
	case 10:
		// a local first assigned inside a nested block and read after it (function scope)
		g.Stats["nested_first_assign"]++
		g.newVar++
		nv := fmt.Sprintf("nw%d", g.newVar)
		return []Stmt{
			&If{Cond: g.cond(0), Then: []Stmt{g.tr(), &Assign{Target: nv, Op: "=", E: g.smallInt(1)}}, HasElse: true, Else: []Stmt{g.tr(), &Assign{Target: nv, Op: ":=", E: ilit(77)}}},
			g.tv(&Ref{nv}),
		}
	case 12:
		// empty bodies: the loop header still runs (init, cond, step), an empty branch does nothing
		g.Stats["empty_body"]++
		g.loopVar++
		v := fmt.Sprintf("i%d", g.loopVar)
		n := int64(1 + r.Intn(4))
		switch r.Intn(4) {
		case 0:
			return []Stmt{&For{Init: &Assign{Target: v, Op: "=", E: ilit(0)}, Cond: &Bin{Op: "<", L: &Ref{v}, R: ilit(n)},
				Step: &Assign{Target: v, Op: "+=", E: &CallE{Name: "ti", Args: []Expr{ilit(g.id()), ilit(1), ilit(2), ilit(1), ilit(4)}}}, Body: []Stmt{}}, g.tv(&Ref{v})}
		case 1:
			return []Stmt{&If{Cond: g.cond(1), Then: []Stmt{}, HasElse: true, Else: []Stmt{g.tr()}}}
		case 2:
			if r.Intn(2) == 0 {
				// an EMPTY else-if branch in front of an else that does something: when the else-if condition is the
				// first true one, nothing runs
				return []Stmt{&If{Cond: g.cond(1), Then: []Stmt{g.tr()}, ElseIfs: []ElseIf{{Cond: g.cond(1), Body: []Stmt{}}, {Cond: g.cond(1), Body: []Stmt{g.tr()}}}, HasElse: true, Else: []Stmt{g.tr(), g.simple()}}}
			}
			return []Stmt{&If{Cond: g.cond(1), Then: []Stmt{g.tr()}, ElseIfs: []ElseIf{{Cond: g.cond(1), Body: []Stmt{}}}, HasElse: true, Else: []Stmt{}}}
		default:
			g.keyVar++
			kv := fmt.Sprintf("k%d", g.keyVar)
			return []Stmt{&ForRange{Key: kv, Cont: "VS", Body: []Stmt{}}, g.tv(&Ref{kv})}
		}
	case 11:
		if inLoop && r.Intn(2) == 0 {
			g.Stats["break"]++
			return []Stmt{g.simple(), &If{Cond: g.cond(0), Then: []Stmt{g.tr(), &Break{}}, HasElse: true, Else: []Stmt{g.tr(), &Continue{}}}}
		}
	}
	return []Stmt{g.simple()}
}

// NormalizeTrace sorts maximal runs of events of one bag id (forRange over a map visits
// keys in an unspecified order).
func NormalizeTrace(t []TraceEv, bag map[int64]bool) []TraceEv {
	out := append([]TraceEv{}, t...)
	i := 0
	for i < len(out) {
		if !bag[out[i].ID] {
			i++
			continue
		}
		j := i
		for j < len(out) && out[j].ID == out[i].ID {
			j++
		}
		seg := out[i:j]
		for a := 1; a < len(seg); a++ {
			for b := a; b > 0 && fmt.Sprint(seg[b].Args) < fmt.Sprint(seg[b-1].Args); b-- {
				seg[b], seg[b-1] = seg[b-1], seg[b]
			}
		}
		i = j
	}
	return out
}
