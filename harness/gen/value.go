// Package gen is engine E1: a typed AST of the rule DSL with three independent functions —
// generate, print, and evaluate according to the reference semantics written down in the
// properties (not a transcription of gengine's interpreter).
package gen

import (
	"errors"
	"fmt"
	"math"
	"reflect"
)

// Values are ordinary typed Go values: int, int8..int64, uint..uint64, float32, float64,
// string, bool. Arithmetic results are always int64, uint64, float64 or string.

type Class int

const (
	CInt Class = iota
	CUint
	CFloat
	CString
	CBool
	COther
)

func ClassOf(v interface{}) Class {
	switch v.(type) {
	case int, int8, int16, int32, int64:
		return CInt
	case uint, uint8, uint16, uint32, uint64:
		return CUint
	case float32, float64:
		return CFloat
	case string:
		return CString
	case bool:
		return CBool
	}
	if v == nil {
		return COther
	}
	// named types over the basic kinds (time.Duration, type Level int64 ...) behave as their kind
	switch reflect.TypeOf(v).Kind() {
	case reflect.Int, reflect.Int8, reflect.Int16, reflect.Int32, reflect.Int64:
		return CInt
	case reflect.Uint, reflect.Uint8, reflect.Uint16, reflect.Uint32, reflect.Uint64:
		return CUint
	case reflect.Float32, reflect.Float64:
		return CFloat
	case reflect.String:
		return CString
	case reflect.Bool:
		return CBool
	}
	return COther
}

var basicOfKind = map[reflect.Kind]reflect.Type{
	reflect.Int: reflect.TypeOf(int(0)), reflect.Int8: reflect.TypeOf(int8(0)), reflect.Int16: reflect.TypeOf(int16(0)), reflect.Int32: reflect.TypeOf(int32(0)), reflect.Int64: reflect.TypeOf(int64(0)),
	reflect.Uint: reflect.TypeOf(uint(0)), reflect.Uint8: reflect.TypeOf(uint8(0)), reflect.Uint16: reflect.TypeOf(uint16(0)), reflect.Uint32: reflect.TypeOf(uint32(0)), reflect.Uint64: reflect.TypeOf(uint64(0)),
	reflect.Float32: reflect.TypeOf(float32(0)), reflect.Float64: reflect.TypeOf(float64(0)), reflect.String: reflect.TypeOf(""), reflect.Bool: reflect.TypeOf(false),
}

// Norm turns a value of a named type over a basic kind into the value of the basic type itself.
func Norm(v interface{}) interface{} {
	if v == nil {
		return v
	}
	t := reflect.TypeOf(v)
	if b, ok := basicOfKind[t.Kind()]; ok && t != b {
		return reflect.ValueOf(v).Convert(b).Interface()
	}
	return v
}

func AsI(v interface{}) int64   { return reflect.ValueOf(v).Int() }
func AsU(v interface{}) uint64  { return reflect.ValueOf(v).Uint() }
func AsF(v interface{}) float64 { return reflect.ValueOf(v).Float() }

var ErrType = errors.New("ill-typed operation")
var ErrDivZero = errors.New("division by zero")

// ErrUndefined marks a case whose reference value the property does not define (NaN, an
// error only a strict evaluator would reach, a non-representable conversion ...). Such
// cases are dropped by the generators, never tolerated by the oracle.
var ErrUndefined = errors.New("reference value undefined")

// Arith implements + - * / of the reference semantics.
func Arith(op byte, a, b interface{}) (interface{}, error) {
	a, b = Norm(a), Norm(b)
	ca, cb := ClassOf(a), ClassOf(b)
	if ca == CString && cb == CString {
		if op == '+' {
			return a.(string) + b.(string), nil
		}
		return nil, ErrType
	}
	num := func(c Class) bool { return c == CInt || c == CUint || c == CFloat }
	if !num(ca) || !num(cb) {
		return nil, ErrType
	}
	// a float operand promotes the operation to float64
	if ca == CFloat || cb == CFloat {
		x, y := toF(a), toF(b)
		var r float64
		switch op {
		case '+':
			r = x + y
		case '-':
			r = x - y
		case '*':
			r = x * y
		case '/':
			if y == 0 {
				return nil, ErrDivZero
			}
			r = x / y
		}
		// inf - inf, 0 * inf: NaN is an ordinary float64 value (its comparisons follow float64 as well)
		return r, nil
	}
	// unsigned with unsigned: wrapping uint64
	if ca == CUint && cb == CUint {
		x, y := AsU(a), AsU(b)
		switch op {
		case '+':
			return x + y, nil
		case '-':
			return x - y, nil
		case '*':
			return x * y, nil
		default:
			if y == 0 {
				return nil, ErrDivZero
			}
			return x / y, nil
		}
	}
	// any signed operand: wrapping int64
	x, y := toI(a), toI(b)
	switch op {
	case '+':
		return x + y, nil
	case '-':
		return x - y, nil
	case '*':
		return x * y, nil
	default:
		if isZero(b) {
			return nil, ErrDivZero
		}
		if y == -1 { // wrapping: MinInt64 / -1 == MinInt64
			return -x, nil
		}
		return x / y, nil
	}
}

func isZero(v interface{}) bool {
	switch ClassOf(v) {
	case CInt:
		return AsI(v) == 0
	case CUint:
		return AsU(v) == 0
	case CFloat:
		return AsF(v) == 0
	}
	return false
}

func toF(v interface{}) float64 {
	switch ClassOf(v) {
	case CInt:
		return float64(AsI(v))
	case CUint:
		return float64(AsU(v))
	}
	return AsF(v)
}

func toI(v interface{}) int64 {
	if ClassOf(v) == CUint {
		return int64(AsU(v))
	}
	return AsI(v)
}

// Compare implements the six comparison operators.
func Compare(op string, a, b interface{}) (bool, error) {
	a, b = Norm(a), Norm(b)
	ca, cb := ClassOf(a), ClassOf(b)
	var c int // -1, 0, 1
	switch {
	case ca == CString && cb == CString:
		x, y := a.(string), b.(string)
		switch {
		case x < y:
			c = -1
		case x > y:
			c = 1
		}
	case ca == CBool && cb == CBool:
		if op != "==" && op != "!=" {
			return false, ErrType
		}
		if a.(bool) != b.(bool) {
			c = 1
		}
	case (ca == CInt || ca == CUint || ca == CFloat) && (cb == CInt || cb == CUint || cb == CFloat):
		if ca == CFloat || cb == CFloat {
			x, y := toF(a), toF(b)
			if math.IsNaN(x) || math.IsNaN(y) {
				// "a comparison involving a float is made in float64": unordered - only != holds
				return op == "!=", nil
			}
			switch {
			case x < y:
				c = -1
			case x > y:
				c = 1
			}
		} else {
			c = cmpInts(a, b)
		}
	default:
		return false, ErrType
	}
	switch op {
	case "==":
		return c == 0, nil
	case "!=":
		return c != 0, nil
	case "<":
		return c < 0, nil
	case "<=":
		return c <= 0, nil
	case ">":
		return c > 0, nil
	case ">=":
		return c >= 0, nil
	}
	return false, fmt.Errorf("unknown operator %s", op)
}

// cmpInts compares exactly over the union of the int64 and uint64 ranges.
func cmpInts(a, b interface{}) int {
	ca, cb := ClassOf(a), ClassOf(b)
	switch {
	case ca == CInt && cb == CInt:
		x, y := AsI(a), AsI(b)
		if x < y {
			return -1
		} else if x > y {
			return 1
		}
		return 0
	case ca == CUint && cb == CUint:
		x, y := AsU(a), AsU(b)
		if x < y {
			return -1
		} else if x > y {
			return 1
		}
		return 0
	case ca == CInt: // int vs uint
		x, y := AsI(a), AsU(b)
		if x < 0 {
			return -1
		}
		if uint64(x) < y {
			return -1
		} else if uint64(x) > y {
			return 1
		}
		return 0
	default: // uint vs int
		return -cmpInts(b, a)
	}
}

// SameValue compares two typed values: same dynamic Go type and same value, floats by bit pattern.
func SameValue(a, b interface{}) bool {
	if a == nil || b == nil {
		return a == nil && b == nil
	}
	if reflect.TypeOf(a) != reflect.TypeOf(b) {
		return false
	}
	switch x := a.(type) {
	case float64:
		y := b.(float64)
		return math.Float64bits(x) == math.Float64bits(y) || (math.IsNaN(x) && math.IsNaN(y))
	case float32:
		y := b.(float32)
		return math.Float32bits(x) == math.Float32bits(y) || (x != x && y != y)
	}
	return reflect.DeepEqual(a, b)
}

func Show(v interface{}) string {
	if v == nil {
		return "<nil>"
	}
	switch x := v.(type) {
	case float64:
		return fmt.Sprintf("float64(%v /0x%x)", x, math.Float64bits(x))
	case float32:
		return fmt.Sprintf("float32(%v)", x)
	case string:
		return fmt.Sprintf("%q", x)
	}
	return fmt.Sprintf("%T(%v)", v, v)
}

// ConvertTo converts v to the Go kind of target when the value is representable there;
// crossClass says whether conversions between the int / uint / float classes are promised.
// ok=false: the property does not define the outcome.
func ConvertTo(v interface{}, target reflect.Type, crossClass bool) (out interface{}, ok bool) {
	cv := ClassOf(v)
	tk := target.Kind()
	var ct Class
	switch tk {
	case reflect.Int, reflect.Int8, reflect.Int16, reflect.Int32, reflect.Int64:
		ct = CInt
	case reflect.Uint, reflect.Uint8, reflect.Uint16, reflect.Uint32, reflect.Uint64:
		ct = CUint
	case reflect.Float32, reflect.Float64:
		ct = CFloat
	case reflect.String:
		if cv == CString {
			return reflect.ValueOf(v).Convert(target).Interface(), true
		}
		return nil, false
	case reflect.Bool:
		if cv == CBool {
			return reflect.ValueOf(v).Convert(target).Interface(), true
		}
		return nil, false
	default:
		return nil, false
	}
	if cv != CInt && cv != CUint && cv != CFloat {
		return nil, false
	}
	if cv != ct && !crossClass {
		return nil, false
	}
	nv := reflect.New(target).Elem()
	switch ct {
	case CInt:
		var x int64
		switch cv {
		case CInt:
			x = AsI(v)
		case CUint:
			u := AsU(v)
			if u > math.MaxInt64 {
				return nil, false
			}
			x = int64(u)
		case CFloat:
			f := AsF(v)
			if f != math.Trunc(f) || f < -9.2e18 || f > 9.2e18 {
				return nil, false
			}
			x = int64(f)
		}
		if nv.OverflowInt(x) {
			return nil, false
		}
		nv.SetInt(x)
	case CUint:
		var x uint64
		switch cv {
		case CInt:
			i := AsI(v)
			if i < 0 {
				return nil, false
			}
			x = uint64(i)
		case CUint:
			x = AsU(v)
		case CFloat:
			f := AsF(v)
			if f != math.Trunc(f) || f < 0 || f > 1.8e19 {
				return nil, false
			}
			x = uint64(f)
		}
		if nv.OverflowUint(x) {
			return nil, false
		}
		nv.SetUint(x)
	case CFloat:
		var f float64
		switch cv {
		case CInt:
			i := AsI(v)
			f = float64(i)
			if int64(f) != i || f >= 9.3e18 {
				return nil, false
			}
		case CUint:
			u := AsU(v)
			f = float64(u)
			if f >= 1.85e19 || uint64(f) != u {
				return nil, false
			}
		case CFloat:
			f = AsF(v)
		}
		if tk == reflect.Float32 && float64(float32(f)) != f {
			return nil, false
		}
		nv.SetFloat(f)
	}
	return nv.Interface(), true
}
