package gen

import (
	"errors"
	"fmt"
	"reflect"
	"sort"
	"strings"
)

// Env is the state of one reference execution of one rule.
type Env struct {
	Locals   map[string]interface{}
	Injected map[string]interface{} // the reference copy of the injected objects
	Meta     RuleMeta
	Steps    int
}

var errBreak = errors.New("break")
var errContinue = errors.New("continue")

// ErrFault is the reference outcome "the rule fails with an error".
var ErrFault = errors.New("rule fails")

func isFault(e error) bool {
	return e != nil && e != ErrUndefined && e != errBreak && e != errContinue
}

func NewEnv(inj map[string]interface{}, m RuleMeta) *Env {
	return &Env{Locals: map[string]interface{}{}, Injected: inj, Meta: m}
}

// lookupPath resolves "A", "A.B", "A.B.C": injected table first, then locals.
func (e *Env) lookupPath(name string) (reflect.Value, error) {
	parts := strings.Split(name, ".")
	if len(parts) > 3 {
		return reflect.Value{}, ErrFault
	}
	var root reflect.Value
	if v, ok := e.Injected[parts[0]]; ok {
		root = reflect.ValueOf(v)
	} else if v, ok := e.Locals[parts[0]]; ok {
		root = reflect.ValueOf(v)
	} else {
		return reflect.Value{}, ErrFault
	}
	cur := root
	for _, f := range parts[1:] {
		if cur.Kind() == reflect.Ptr {
			if cur.IsNil() {
				return reflect.Value{}, ErrFault
			}
			cur = cur.Elem()
		}
		if cur.Kind() != reflect.Struct {
			return reflect.Value{}, ErrFault
		}
		fv := cur.FieldByName(f)
		if !fv.IsValid() {
			// the property does not say what reading a non-existing field yields
			return reflect.Value{}, ErrUndefined
		}
		cur = fv
	}
	return cur, nil
}

func (e *Env) read(name string) (interface{}, error) {
	v, err := e.lookupPath(name)
	if err != nil {
		return nil, err
	}
	if !v.CanInterface() {
		return nil, ErrUndefined
	}
	return v.Interface(), nil
}

// container resolves the container of an element access to a map/slice/array value.
func (e *Env) container(name string) (reflect.Value, error) {
	v, err := e.lookupPath(name)
	if err != nil {
		return v, err
	}
	if v.Kind() == reflect.Ptr {
		if v.IsNil() {
			return v, ErrFault
		}
		v = v.Elem()
	}
	switch v.Kind() {
	case reflect.Map, reflect.Slice, reflect.Array:
		return v, nil
	}
	return v, ErrFault
}

func (e *Env) elemKey(x *Elem) (interface{}, error) {
	switch {
	case x.KeyStr != nil:
		return *x.KeyStr, nil
	case x.KeyInt != nil:
		return *x.KeyInt, nil
	default:
		return e.read(x.KeyVar)
	}
}

func (e *Env) readElem(x *Elem) (interface{}, error) {
	c, err := e.container(x.Cont)
	if err != nil {
		return nil, err
	}
	k, err := e.elemKey(x)
	if err != nil {
		return nil, err
	}
	if c.Kind() == reflect.Map {
		kk, ok := ConvertTo(k, c.Type().Key(), false)
		if !ok {
			return nil, ErrUndefined
		}
		mv := c.MapIndex(reflect.ValueOf(kk))
		if !mv.IsValid() {
			return reflect.Zero(c.Type().Elem()).Interface(), nil
		}
		return mv.Interface(), nil
	}
	if ClassOf(k) != CInt {
		return nil, ErrUndefined
	}
	i := AsI(k)
	if i < 0 || i >= int64(c.Len()) {
		return nil, ErrFault
	}
	return c.Index(int(i)).Interface(), nil
}

// Eval evaluates an expression strictly (both operands of && and ||), left to right.
func (e *Env) Eval(x Expr) (interface{}, error) {
	switch n := x.(type) {
	case *Lit:
		return n.V, nil
	case *Paren:
		return e.Eval(n.X)
	case *Ref:
		return e.read(n.Name)
	case *Elem:
		return e.readElem(n)
	case *At:
		switch n.Which {
		case "name":
			return e.Meta.Name, nil
		case "id":
			return e.Meta.ID(), nil
		case "desc":
			return e.Meta.Desc, nil
		case "sal":
			return e.Meta.Sal, nil
		}
		return nil, ErrUndefined
	case *Not:
		v, err := e.Eval(n.X)
		if err != nil {
			return nil, err
		}
		b, ok := Norm(v).(bool)
		if !ok {
			return nil, ErrFault
		}
		return !b, nil
	case *CallE:
		return e.call(n)
	case *Bin:
		l, err := e.Eval(n.L)
		if err != nil {
			return nil, err
		}
		r, err := e.Eval(n.R)
		switch n.Op {
		case "&&", "||":
			// the property is unconditional: an ill-typed operation or a division by zero makes the
			// rule fail - also in the right operand of && / || (both operands are evaluated)
			if err != nil {
				return nil, err
			}
			lb, ok1 := Norm(l).(bool)
			rb, ok2 := Norm(r).(bool)
			if !ok1 || !ok2 {
				return nil, ErrFault
			}
			if n.Op == "&&" {
				return lb && rb, nil
			}
			return lb || rb, nil
		}
		if err != nil {
			return nil, err
		}
		switch n.Op {
		case "+", "-", "*", "/":
			v, err := Arith(n.Op[0], l, r)
			if err == ErrType || err == ErrDivZero {
				return nil, ErrFault
			}
			return v, err
		default:
			v, err := Compare(n.Op, l, r)
			if err == ErrType {
				return nil, ErrFault
			}
			return v, err
		}
	}
	return nil, fmt.Errorf("unknown expr %T", x)
}

// call evaluates the arguments left to right, converts them to the declared parameter
// kinds (across numeric classes, when representable) and yields the callee's first result.
func (e *Env) call(c *CallE) (interface{}, error) {
	parts := strings.Split(c.Name, ".")
	var fn reflect.Value
	switch len(parts) {
	case 1:
		if v, ok := e.Injected[parts[0]]; ok {
			fn = reflect.ValueOf(v)
		} else if v, ok := e.Locals[parts[0]]; ok {
			fn = reflect.ValueOf(v)
		} else {
			// arguments are still evaluated first by a left-to-right evaluator; no observable difference
			return nil, ErrFault
		}
	case 2, 3:
		recv, err := e.lookupPath(strings.Join(parts[:len(parts)-1], "."))
		if err != nil {
			return nil, err
		}
		fn = recv.MethodByName(parts[len(parts)-1])
		if !fn.IsValid() {
			return nil, ErrFault
		}
	default:
		return nil, ErrFault
	}
	args := make([]interface{}, len(c.Args))
	for i, a := range c.Args {
		v, err := e.Eval(a)
		if err != nil {
			return nil, err
		}
		args[i] = v
	}
	if fn.Kind() != reflect.Func {
		return nil, ErrFault
	}
	ft := fn.Type()
	fixed := ft.NumIn()
	if ft.IsVariadic() {
		// the fixed parameters are converted like any others, the rest to the element type of the tail
		fixed--
		if len(args) < fixed {
			return nil, ErrUndefined
		}
	} else if ft.NumIn() != len(args) {
		return nil, ErrUndefined
	}
	in := make([]reflect.Value, len(args))
	for i, a := range args {
		var pt reflect.Type
		if i < fixed {
			pt = ft.In(i)
		} else {
			pt = ft.In(fixed).Elem()
		}
		switch pt.Kind() {
		case reflect.Interface:
			if a == nil {
				return nil, ErrUndefined
			}
			in[i] = reflect.ValueOf(a)
		case reflect.String, reflect.Bool:
			if reflect.TypeOf(a) == nil || reflect.TypeOf(a).Kind() != pt.Kind() {
				return nil, ErrUndefined
			}
			in[i] = reflect.ValueOf(a).Convert(pt)
		default:
			cv, ok := ConvertTo(a, pt, true)
			if !ok {
				return nil, ErrUndefined
			}
			in[i] = reflect.ValueOf(cv)
		}
	}
	var out []reflect.Value
	var perr interface{}
	func() {
		defer func() { perr = recover() }()
		out = fn.Call(in)
	}()
	if perr != nil {
		return nil, ErrFault
	}
	if len(out) == 0 {
		return nil, nil
	}
	return out[0].Interface(), nil
}

// ---- statements ----

const MaxLoop = 10000

// assign performs = := and the compound operators on a local or injected target.
func (e *Env) assign(a *Assign) error {
	v, err := e.Eval(a.E)
	if err != nil {
		return err
	}
	if a.Op != "=" && a.Op != ":=" {
		var cur interface{}
		if a.Elem != nil {
			cur, err = e.readElem(a.Elem)
		} else {
			cur, err = e.read(a.Target)
		}
		if err != nil {
			return err
		}
		v, err = Arith(a.Op[0], cur, v)
		if err == ErrType || err == ErrDivZero {
			return ErrFault
		}
		if err != nil {
			return err
		}
	}
	if a.Elem != nil {
		return e.writeElem(a.Elem, v)
	}
	return e.write(a.Target, v)
}

func (e *Env) write(name string, v interface{}) error {
	parts := strings.Split(name, ".")
	if len(parts) == 1 {
		if inj, ok := e.Injected[name]; ok {
			// the injected object stays in charge: only a pointer-injected scalar can be stored through
			pv := reflect.ValueOf(inj)
			if pv.Kind() != reflect.Ptr || pv.IsNil() {
				return ErrFault
			}
			switch pv.Type().Elem().Kind() {
			case reflect.Struct, reflect.Map, reflect.Slice, reflect.Array, reflect.Func, reflect.Ptr, reflect.Interface:
				return ErrFault // the injected object cannot be replaced by a value
			}
			cv, ok := ConvertTo(v, pv.Type().Elem(), true)
			if !ok {
				return ErrUndefined
			}
			pv.Elem().Set(reflect.ValueOf(cv))
			return nil
		}
		if v == nil {
			return ErrUndefined
		}
		e.Locals[name] = v
		return nil
	}
	parent, err := e.lookupPath(strings.Join(parts[:len(parts)-1], "."))
	if err != nil {
		return err
	}
	if parent.Kind() == reflect.Ptr {
		if parent.IsNil() {
			return ErrFault
		}
		parent = parent.Elem()
	}
	if parent.Kind() != reflect.Struct {
		return ErrFault
	}
	f := parent.FieldByName(parts[len(parts)-1])
	if !f.IsValid() {
		return ErrFault
	}
	if !f.CanSet() {
		return ErrFault
	}
	if v != nil && reflect.TypeOf(v) == f.Type() && (f.Kind() == reflect.Slice || f.Kind() == reflect.Map) {
		// a slice / map value of exactly the field's type replaces the field's value as a whole
		f.Set(reflect.ValueOf(v))
		return nil
	}
	cv, ok := ConvertTo(v, f.Type(), true)
	if !ok {
		return ErrUndefined
	}
	f.Set(reflect.ValueOf(cv))
	return nil
}

func (e *Env) writeElem(x *Elem, v interface{}) error {
	c, err := e.container(x.Cont)
	if err != nil {
		return err
	}
	k, err := e.elemKey(x)
	if err != nil {
		return err
	}
	cv, ok := ConvertTo(v, c.Type().Elem(), false) // containers: within the numeric class only
	if !ok {
		return ErrUndefined
	}
	if c.Kind() == reflect.Map {
		kk, ok := ConvertTo(k, c.Type().Key(), false)
		if !ok {
			return ErrUndefined
		}
		if c.IsNil() {
			return ErrFault
		}
		c.SetMapIndex(reflect.ValueOf(kk), reflect.ValueOf(cv))
		return nil
	}
	if ClassOf(k) != CInt {
		return ErrUndefined
	}
	i := AsI(k)
	if i < 0 || i >= int64(c.Len()) {
		return ErrFault
	}
	el := c.Index(int(i))
	if !el.CanSet() {
		return ErrFault
	}
	el.Set(reflect.ValueOf(cv))
	return nil
}

// Result of running a block.
type flow struct {
	returned bool
	val      interface{}
}

// Run executes a rule body; returned=true with val when a return was reached.
func (e *Env) Run(body []Stmt) (returned bool, val interface{}, err error) {
	f, err := e.block(body)
	if err == errBreak || err == errContinue {
		// break / continue outside a loop: the rule fails
		return false, nil, ErrFault
	}
	if err != nil {
		return false, nil, err
	}
	return f.returned, f.val, nil
}

func (e *Env) block(ss []Stmt) (flow, error) {
	for _, s := range ss {
		f, err := e.stmt(s)
		if err != nil {
			return flow{}, err
		}
		if f.returned {
			return f, nil
		}
	}
	return flow{}, nil
}

func (e *Env) cond(x Expr) (bool, error) {
	v, err := e.Eval(x)
	if err != nil {
		return false, err
	}
	b, ok := Norm(v).(bool)
	if !ok {
		return false, ErrFault
	}
	return b, nil
}

func (e *Env) stmt(s Stmt) (flow, error) {
	e.Steps++
	switch x := s.(type) {
	case *Assign:
		return flow{}, e.assign(x)
	case *CallS:
		_, err := e.call(x.C)
		return flow{}, err
	case *Break:
		return flow{}, errBreak
	case *Continue:
		return flow{}, errContinue
	case *Return:
		if x.E == nil {
			return flow{returned: true}, nil
		}
		v, err := e.Eval(x.E)
		if err != nil {
			return flow{}, err
		}
		return flow{returned: true, val: v}, nil
	case *If:
		c, err := e.cond(x.Cond)
		if err != nil {
			return flow{}, err
		}
		if c {
			return e.block(x.Then)
		}
		for _, ei := range x.ElseIfs {
			c, err := e.cond(ei.Cond)
			if err != nil {
				return flow{}, err
			}
			if c {
				return e.block(ei.Body)
			}
		}
		if x.HasElse {
			return e.block(x.Else)
		}
		return flow{}, nil
	case *For:
		if err := e.assign(x.Init); err != nil {
			return flow{}, err
		}
		for it := 0; ; it++ {
			if it >= MaxLoop {
				return flow{}, ErrFault // unbounded loops are cut off with an error
			}
			c, err := e.cond(x.Cond)
			if err != nil {
				return flow{}, err
			}
			if !c {
				return flow{}, nil
			}
			f, err := e.block(x.Body)
			if err == errBreak {
				return flow{}, nil
			}
			if err != nil && err != errContinue {
				return flow{}, err
			}
			if f.returned {
				return f, nil
			}
			if err := e.assign(x.Step); err != nil {
				return flow{}, err
			}
		}
	case *ForRange:
		c, err := e.containerForRange(x.Cont)
		if err != nil {
			return flow{}, err
		}
		var keys []interface{}
		if c.Kind() == reflect.Map {
			ks := c.MapKeys()
			sort.Slice(ks, func(i, j int) bool { return fmt.Sprint(ks[i].Interface()) < fmt.Sprint(ks[j].Interface()) })
			for _, k := range ks {
				keys = append(keys, k.Interface())
			}
		} else {
			for i := 0; i < c.Len(); i++ {
				keys = append(keys, i)
			}
		}
		for _, k := range keys {
			if err := e.write(x.Key, k); err != nil {
				return flow{}, err
			}
			f, err := e.block(x.Body)
			if err == errBreak {
				return flow{}, nil
			}
			if err != nil && err != errContinue {
				return flow{}, err
			}
			if f.returned {
				return f, nil
			}
		}
		return flow{}, nil
	case *Conc:
		// members touch disjoint state by construction; run them in text order
		var firstErr error
		for _, m := range x.Members {
			if _, err := e.stmt(m); err != nil {
				if err == ErrUndefined {
					return flow{}, err
				}
				if firstErr == nil {
					firstErr = err
				}
			}
		}
		return flow{}, firstErr
	}
	return flow{}, fmt.Errorf("unknown stmt %T", s)
}

// containerForRange: forRange needs a value-kind slice / array / map.
func (e *Env) containerForRange(name string) (reflect.Value, error) {
	v, err := e.lookupPath(name)
	if err != nil {
		return v, err
	}
	switch v.Kind() {
	case reflect.Map, reflect.Slice, reflect.Array:
		return v, nil
	}
	return v, ErrFault
}
