package gen

import (
	"fmt"
	"math/rand"
	"strconv"
	"strings"
)

// G generates typed expression trees over the fixture's names.
type G struct {
	R       *rand.Rand
	Locals  map[string]interface{} // locals known to be assigned at this point (name -> current reference value)
	NoAt    bool
	NoCalls bool
}

var realTexts = []string{"1.5", "0.5", ".5", "2.25", "10.0", "1.0", "1.0", "0.0", "1e3", "1.5e-3", "2.5e2", "-2.5", "-0.5", "100.75", "0.1", "3.0", "9007199254740993.0", "1e19", "0.0", "-1e10", "16777217.0", "1.e2", ".25e1"}

func (g *G) intLit() *Lit {
	var v int64
	if g.R.Intn(3) == 0 {
		v = int64(g.R.Intn(21) - 10)
	} else {
		v = I64Pool[g.R.Intn(len(I64Pool))]
	}
	if v >= 0 && g.R.Intn(15) == 0 {
		// leading zeros: still a decimal literal
		return &Lit{V: v, Text: "00" + strconv.FormatInt(v, 10)}
	}
	return &Lit{V: v, Text: strconv.FormatInt(v, 10)}
}

func (g *G) realLit() *Lit {
	t := realTexts[g.R.Intn(len(realTexts))]
	f, err := strconv.ParseFloat(t, 64)
	if err != nil {
		panic(err)
	}
	return &Lit{V: f, Text: t}
}

func (g *G) strLit() *Lit {
	s := StrPool[g.R.Intn(len(StrPool))]
	return &Lit{V: s, Text: "\"" + s + "\""}
}

func (g *G) boolLit() *Lit {
	if g.R.Intn(2) == 0 {
		return &Lit{V: true, Text: []string{"true", "TRUE", "True"}[g.R.Intn(3)]}
	}
	return &Lit{V: false, Text: []string{"false", "FALSE"}[g.R.Intn(2)]}
}

func is(i int64) *int64   { return &i }
func ss(s string) *string { return &s }

var intLeaves = []Expr{
	&Ref{"NI"}, &Ref{"NI8"}, &Ref{"NI16"}, &Ref{"NI32"}, &Ref{"NI64"},
	&Ref{"H.I"}, &Ref{"H.I8"}, &Ref{"H.I16"}, &Ref{"H.I32"}, &Ref{"H.I64"}, &Ref{"H.In.X"}, &Ref{"H.In.W"}, &Ref{"H.Pn.X"}, &Ref{"H.Pn.W"},
	&Ref{"V.I8"}, &Ref{"V.I64"}, &Ref{"V.In.X"}, &Ref{"H.EI"}, &Ref{"H.Lv"}, &Ref{"H.Dur"}, &Ref{"V.Lv"}, &Ref{"H.In.DX"}, &Ref{"H.Pn.DX"}, &Ref{"V.EI"}, &Ref{"V.In.DX"},
	&Elem{Cont: "M64", KeyStr: ss("a")}, &Elem{Cont: "M64", KeyStr: ss("missing")}, &Elem{Cont: "PS", KeyInt: is(1)}, &Elem{Cont: "VS", KeyInt: is(0)},
	&Elem{Cont: "MIK", KeyInt: is(1)}, &Elem{Cont: "MIK", KeyInt: is(-7)}, &Elem{Cont: "H.SL", KeyInt: is(0)}, &Elem{Cont: "H.MS", KeyStr: ss("b")},
	&Elem{Cont: "PA", KeyInt: is(4)}, &Elem{Cont: "PM", KeyStr: ss("a")}, &Elem{Cont: "VA", KeyInt: is(0)}, &Elem{Cont: "MKU", KeyInt: is(9)},
	// missing keys in every key form, on value- and pointer-injected maps
	&Elem{Cont: "PM", KeyStr: ss("absent")}, &Elem{Cont: "PMI", KeyInt: is(1)}, &Elem{Cont: "PMI", KeyInt: is(404)}, &Elem{Cont: "PMI", KeyVar: "NI8"}, &Elem{Cont: "PMI", KeyVar: "NI64"},
	&Elem{Cont: "MIK", KeyInt: is(4040)}, &Elem{Cont: "MIK", KeyVar: "NI16"}, &Elem{Cont: "M64", KeyVar: "NS"}, &Elem{Cont: "PM", KeyVar: "NS"}, &Elem{Cont: "H.MS", KeyVar: "NS"}, &Elem{Cont: "H.MS", KeyStr: ss("nope")},
	&Elem{Cont: "PS", KeyVar: "ix1"}, &Elem{Cont: "H.SL", KeyVar: "ix1"},
}
var uintLeaves = []Expr{
	&Ref{"NU"}, &Ref{"NU8"}, &Ref{"NU16"}, &Ref{"NU32"}, &Ref{"NU64"},
	&Ref{"H.U"}, &Ref{"H.U8"}, &Ref{"H.U16"}, &Ref{"H.U32"}, &Ref{"H.U64"}, &Ref{"H.In.Y"}, &Ref{"H.Pn.Y"}, &Ref{"V.U64"}, &Ref{"V.U8"}, &Ref{"H.EU"},
	&Elem{Cont: "MU8", KeyStr: ss("a")}, &Elem{Cont: "MU8", KeyStr: ss("nokey")}, &Elem{Cont: "PSU", KeyInt: is(0)}, &Elem{Cont: "H.AR", KeyInt: is(3)}, &Elem{Cont: "MK8", KeyInt: is(5)},
}
var floatLeaves = []Expr{
	&Ref{"NF32"}, &Ref{"NF64"}, &Ref{"H.F32"}, &Ref{"H.F64"}, &Ref{"H.In.Z"}, &Ref{"H.In.F3"}, &Ref{"H.Pn.Z"}, &Ref{"V.F64"}, &Ref{"H.EF"}, &Ref{"H.Rt"},
	&Elem{Cont: "MF", KeyStr: ss("a")}, &Elem{Cont: "MF", KeyStr: ss("none")}, &Elem{Cont: "PSF", KeyInt: is(1)},
	&Ref{"NNaN"}, &Ref{"NPInf"}, &Ref{"NNInf"},
}
var strLeaves = []Expr{
	&Ref{"NS"}, &Ref{"H.S"}, &Ref{"H.ES"}, &Ref{"H.In.S"}, &Ref{"H.Pn.S"}, &Ref{"V.S"}, &Elem{Cont: "VSS", KeyInt: is(1)}, &Elem{Cont: "H.MI", KeyInt: is(1)}, &Elem{Cont: "H.MI", KeyInt: is(-5)}, &Elem{Cont: "H.MI", KeyInt: is(77)},
	&Elem{Cont: "PMS", KeyStr: ss("a")}, &Elem{Cont: "PMS", KeyStr: ss("missing")}, &Elem{Cont: "PMS", KeyVar: "NS"}, &Elem{Cont: "H.MI", KeyVar: "NI8"},
}
var boolLeaves = []Expr{&Ref{"NB"}, &Ref{"H.B"}, &Ref{"H.In.B"}, &Ref{"H.Pn.B"}, &Ref{"V.B"}}

func (g *G) localOf(c Class) Expr {
	var names []string
	for n, v := range g.Locals {
		if ClassOf(v) == c {
			names = append(names, n)
		}
	}
	if len(names) == 0 {
		return nil
	}
	// deterministic choice: sort
	for i := 1; i < len(names); i++ {
		for j := i; j > 0 && names[j] < names[j-1]; j-- {
			names[j], names[j-1] = names[j-1], names[j]
		}
	}
	return &Ref{names[g.R.Intn(len(names))]}
}

func (g *G) NumLeaf() Expr {
	for {
		switch g.R.Intn(12) {
		case 0, 1, 2:
			return g.intLit()
		case 3:
			return g.realLit()
		case 4, 5:
			return intLeaves[g.R.Intn(len(intLeaves))]
		case 6, 7:
			return uintLeaves[g.R.Intn(len(uintLeaves))]
		case 8:
			return floatLeaves[g.R.Intn(len(floatLeaves))]
		case 9:
			if !g.NoAt {
				return &At{[]string{"id", "sal"}[g.R.Intn(2)]}
			}
		case 10:
			if !g.NoCalls {
				switch g.R.Intn(4) {
				case 0:
					return &CallE{Name: "H.GetI64"}
				case 1:
					bv := int64(g.R.Intn(60000))
					return &CallE{Name: "H.In.Sum", Args: []Expr{g.intLit(), &Lit{V: bv, Text: strconv.FormatInt(bv, 10)}}}
				case 2:
					return &CallE{Name: "idn", Args: []Expr{intLeaves[g.R.Intn(len(intLeaves))]}}
				}
				return &CallE{Name: "idn", Args: []Expr{g.intLit()}}
			}
		default:
			c := []Class{CInt, CUint, CFloat}[g.R.Intn(3)]
			if l := g.localOf(c); l != nil {
				return l
			}
		}
	}
}

func (g *G) StrLeaf() Expr {
	for {
		switch g.R.Intn(6) {
		case 0, 1:
			return g.strLit()
		case 2, 3:
			return strLeaves[g.R.Intn(len(strLeaves))]
		case 4:
			if !g.NoAt {
				return &At{[]string{"name", "desc"}[g.R.Intn(2)]}
			}
		default:
			if l := g.localOf(CString); l != nil {
				return l
			}
		}
	}
}

func (g *G) BoolLeaf() Expr {
	for {
		switch g.R.Intn(4) {
		case 0, 1:
			return g.boolLit()
		case 2:
			return boolLeaves[g.R.Intn(len(boolLeaves))]
		default:
			if l := g.localOf(CBool); l != nil {
				return l
			}
		}
	}
}

func (g *G) maybeParen(e Expr) Expr {
	if g.R.Intn(12) == 0 {
		return &Paren{e}
	}
	return e
}

var arithOps = []string{"+", "-", "-", "*", "/", "/", "+", "*"}
var cmpOps = []string{"==", "!=", "<", "<=", ">", ">="}

func (g *G) Num(d int) Expr {
	if d <= 0 || g.R.Intn(5) == 0 {
		return g.NumLeaf()
	}
	if g.R.Intn(40) == 0 {
		return g.edgeArith()
	}
	return g.maybeParen(&Bin{Op: arithOps[g.R.Intn(len(arithOps))], L: g.Num(d - 1), R: g.Num(d - 1 - g.R.Intn(2))})
}

func (g *G) Str(d int) Expr {
	if d <= 0 || g.R.Intn(2) == 0 {
		return g.StrLeaf()
	}
	return g.maybeParen(&Bin{Op: "+", L: g.Str(d - 1), R: g.Str(d - 1)})
}

// nearPair builds a comparison of two integers that differ by at most one and sit at a
// boundary (incl. beyond +-2^53, where float64 cannot tell them apart): literals, calls
// and arithmetic that reaches the value.
func (g *G) nearPair() Expr {
	v := I64Pool[g.R.Intn(len(I64Pool))]
	if g.R.Intn(2) == 0 {
		v = -v
	}
	mk := func(x int64) Expr {
		l := &Lit{V: x, Text: strconv.FormatInt(x, 10)}
		switch g.R.Intn(4) {
		case 0:
			if !g.NoCalls {
				return &CallE{Name: "idn", Args: []Expr{l}}
			}
		case 1:
			// reach x by arithmetic from x-1 (wrapping is part of the reference semantics)
			return &Bin{Op: "+", L: &Lit{V: x - 1, Text: strconv.FormatInt(x-1, 10)}, R: &Lit{V: int64(1), Text: "1"}}
		}
		return l
	}
	w := v + int64(g.R.Intn(3)-1)
	return &Bin{Op: cmpOps[g.R.Intn(6)], L: mk(v), R: mk(w)}
}

// nanPair compares a NaN (injected, or computed from infinities) with a number: a comparison
// involving a float is made in float64, where NaN is unordered.
func (g *G) nanPair(d int) Expr {
	var n Expr
	switch g.R.Intn(4) {
	case 0:
		n = &Bin{Op: "-", L: &Ref{"NPInf"}, R: &Ref{"NPInf"}}
	case 1:
		n = &Bin{Op: "+", L: &Ref{"NNInf"}, R: &Bin{Op: "*", L: &Lit{V: 1e308, Text: "1e308"}, R: &Lit{V: 10.0, Text: "10.0"}}}
	default:
		n = &Ref{"NNaN"}
	}
	var o Expr
	switch g.R.Intn(4) {
	case 0:
		o = &Ref{"NNaN"}
	case 1:
		o = g.NumLeaf()
	default:
		o = g.Num(d - 1)
	}
	if g.R.Intn(2) == 0 {
		n, o = o, n
	}
	return &Bin{Op: cmpOps[g.R.Intn(6)], L: n, R: o}
}

// edgeArith: integer arithmetic is 64-bit wrapping with truncating division - also at the very edge
// (MinInt64 / -1, MinInt64 * -1, MaxInt64 + 1, 0 - MinInt64 ...).
func (g *G) edgeArith() Expr {
	a := []int64{-9223372036854775808, 9223372036854775807, -9223372036854775807, 4611686018427387904}[g.R.Intn(4)]
	b := []int64{-1, 1, 2, -2, 9223372036854775807, -9223372036854775808}[g.R.Intn(6)]
	mk := func(x int64) Expr {
		var l Expr = &Lit{V: x, Text: strconv.FormatInt(x, 10)}
		if !g.NoCalls && g.R.Intn(3) == 0 {
			return &CallE{Name: "idn", Args: []Expr{l}}
		}
		return l
	}
	return &Bin{Op: []string{"/", "*", "+", "-"}[g.R.Intn(4)], L: mk(a), R: mk(b)}
}

// mixedPair compares a signed integer at the edge of its range with an unsigned one at the same edge:
// comparisons between integers are exact over the whole 64-bit range, whatever the signedness.
func (g *G) mixedPair() Expr {
	u := []string{"UMaxIm1", "UMaxI", "UMaxI1", "UMax", "UZ", "U32Max"}[g.R.Intn(6)]
	v := []int64{9223372036854775807, 9223372036854775806, -1, 0, 1, -9223372036854775808, 4294967295, 4294967296}[g.R.Intn(8)]
	var s Expr = &Lit{V: v, Text: strconv.FormatInt(v, 10)}
	if !g.NoCalls && g.R.Intn(2) == 0 {
		s = &CallE{Name: "idn", Args: []Expr{s}}
	}
	var l, r Expr = s, &Ref{u}
	if g.R.Intn(2) == 0 {
		l, r = r, l
	}
	return &Bin{Op: cmpOps[g.R.Intn(6)], L: l, R: r}
}

func (g *G) Bool(d int) Expr {
	if d <= 0 || g.R.Intn(6) == 0 {
		return g.BoolLeaf()
	}
	if g.R.Intn(6) == 0 {
		return g.nearPair()
	}
	if g.R.Intn(24) == 0 {
		return g.nanPair(d)
	}
	if g.R.Intn(16) == 0 {
		return g.mixedPair()
	}
	if g.R.Intn(30) == 0 {
		// values of NAMED string / bool types compare like their kind
		if g.R.Intn(2) == 0 {
			return &Bin{Op: cmpOps[g.R.Intn(6)], L: &Ref{"H.Nm"}, R: g.strLit()}
		}
		return &Bin{Op: cmpOps[g.R.Intn(2)], L: g.boolLit(), R: &Ref{"H.Fl"}}
	}
	switch g.R.Intn(10) {
	case 0, 1, 2, 3:
		return g.maybeParen(&Bin{Op: cmpOps[g.R.Intn(6)], L: g.Num(d - 1), R: g.Num(d - 1)})
	case 4:
		return g.maybeParen(&Bin{Op: cmpOps[g.R.Intn(6)], L: g.Str(d - 1), R: g.Str(d - 1)})
	case 5:
		return g.maybeParen(&Bin{Op: cmpOps[g.R.Intn(2)], L: g.Bool(d - 1), R: g.Bool(d - 1)})
	case 6, 7, 8:
		return g.maybeParen(&Bin{Op: []string{"&&", "||"}[g.R.Intn(2)], L: g.Bool(d - 1), R: g.Bool(d - 1)})
	default:
		return &Not{g.Bool(d - 1)}
	}
}

// IllTyped builds an expression with one deliberate type error or division by zero, placed
// where every evaluation strategy reaches it (never below the right operand of && / ||).
func (g *G) IllTyped(d int) Expr {
	var bad Expr
	switch g.R.Intn(11) {
	case 0:
		bad = &Bin{Op: "+", L: g.Num(d - 1), R: g.StrLeaf()}
	case 1:
		bad = &Bin{Op: []string{"-", "*", "/"}[g.R.Intn(3)], L: g.StrLeaf(), R: g.StrLeaf()}
	case 2:
		bad = &Bin{Op: arithOps[g.R.Intn(len(arithOps))], L: g.BoolLeaf(), R: g.Num(d - 1)}
	case 3:
		bad = &Bin{Op: "/", L: g.Num(d - 1), R: &Lit{V: int64(0), Text: "0"}}
	case 4:
		z := g.NumLeaf()
		bad = &Bin{Op: "/", L: g.Num(d - 1), R: &Paren{&Bin{Op: "-", L: z, R: z}}}
	case 5:
		bad = &Bin{Op: cmpOps[g.R.Intn(6)], L: g.Num(d - 1), R: g.StrLeaf()}
	case 6:
		bad = &Bin{Op: cmpOps[2+g.R.Intn(4)], L: g.BoolLeaf(), R: g.BoolLeaf()}
	case 7:
		bad = &Bin{Op: []string{"&&", "||"}[g.R.Intn(2)], L: g.Num(d - 1), R: g.BoolLeaf()}
	case 8:
		bad = &Bin{Op: "/", L: g.Num(d - 1), R: &Lit{V: 0.0, Text: "0.0"}}
	case 9:
		bad = &Not{g.NumLeaf()}
	default:
		bad = &Bin{Op: cmpOps[g.R.Intn(6)], L: g.StrLeaf(), R: g.BoolLeaf()}
	}
	// optionally put it as an operand of a larger expression (also as the RIGHT operand of a
	// logic operator whose left side already decides the result)
	switch g.R.Intn(6) {
	case 4:
		if ClassOfExprGuess(bad) == CBool {
			return &Bin{Op: []string{"&&", "||"}[g.R.Intn(2)], L: g.BoolLeaf(), R: &Paren{bad}}
		}
		return &Bin{Op: []string{"&&", "||"}[g.R.Intn(2)], L: g.BoolLeaf(), R: &Paren{&Bin{Op: cmpOps[g.R.Intn(6)], L: bad, R: g.NumLeaf()}}}
	case 5:
		return &Bin{Op: "&&", L: &Lit{V: false, Text: "false"}, R: &Paren{&Bin{Op: "==", L: &Paren{bad}, R: &Paren{bad}}}}
	case 0:
		if ClassOfExprGuess(bad) == CBool {
			return &Bin{Op: []string{"&&", "||"}[g.R.Intn(2)], L: bad, R: g.BoolLeaf()}
		}
		return &Bin{Op: arithOps[g.R.Intn(len(arithOps))], L: bad, R: g.NumLeaf()}
	case 1:
		return &Paren{bad}
	}
	return bad
}

// ClassOfExprGuess gives the class an expression would have if it were well typed.
func ClassOfExprGuess(e Expr) Class {
	switch x := e.(type) {
	case *Bin:
		switch x.Op {
		case "+", "-", "*", "/":
			return CInt
		}
		return CBool
	case *Not:
		return CBool
	case *Paren:
		return ClassOfExprGuess(x.X)
	}
	return COther
}

// Shape is a structural signature: operators and leaf classes, without concrete values.
func Shape(e Expr) string {
	var b strings.Builder
	var w func(Expr)
	w = func(e Expr) {
		switch x := e.(type) {
		case *Lit:
			fmt.Fprintf(&b, "L%d", ClassOf(x.V))
		case *Ref:
			if strings.Contains(x.Name, ".") {
				b.WriteString("F:" + x.Name)
			} else {
				b.WriteString("R:" + x.Name)
			}
		case *Elem:
			b.WriteString("E:" + x.Cont)
		case *At:
			b.WriteString("@" + x.Which)
		case *Paren:
			b.WriteString("(")
			w(x.X)
			b.WriteString(")")
		case *Not:
			b.WriteString("!")
			w(x.X)
		case *CallE:
			b.WriteString("C:" + x.Name)
		case *Bin:
			b.WriteString("[")
			w(x.L)
			b.WriteString(x.Op)
			w(x.R)
			b.WriteString("]")
		}
	}
	w(e)
	return b.String()
}

// Leaves counts the leaves of an expression.
func Leaves(e Expr) int {
	switch x := e.(type) {
	case *Paren:
		return Leaves(x.X)
	case *Not:
		return Leaves(x.X)
	case *Bin:
		return Leaves(x.L) + Leaves(x.R)
	}
	return 1
}

// NumLeafInt returns a leaf of the signed-integer class (literal, injected, local).
func (g *G) NumLeafInt() Expr {
	if g.R.Intn(3) == 0 {
		return g.intLit()
	}
	return intLeaves[g.R.Intn(len(intLeaves))]
}
