package gen

import (
	"fmt"
	"math/rand"
	"strings"
)

// ---- expressions ----

type Expr interface{ isExpr() }

// Lit is a literal with its exact source text (value obtained by the reference from the text).
type Lit struct {
	V    interface{}
	Text string
}

// Ref reads a name: simple local/injected name, or dotted path "H.I8", "H.In.X".
type Ref struct{ Name string }

// Elem reads a container element: Cont["k"], Cont[3], Cont[v].
type Elem struct {
	Cont   string // simple or dotted name of the container
	KeyStr *string
	KeyInt *int64
	KeyVar string
}

// At is one of @name @id @desc @sal.
type At struct{ Which string }

// Bin is a binary operation: + - * / == != < <= > >= && ||.
type Bin struct {
	Op   string
	L, R Expr
}

// Not is !X where X is an atom or a parenthesised expression.
type Not struct{ X Expr }

// CallE is a function / method / three-level call used as an expression or statement.
type CallE struct {
	Name string // f, O.M, O.F.M
	Args []Expr
}

// Paren is an explicit redundant parenthesis.
type Paren struct{ X Expr }

func (*Lit) isExpr()   {}
func (*Ref) isExpr()   {}
func (*Elem) isExpr()  {}
func (*At) isExpr()    {}
func (*Bin) isExpr()   {}
func (*Not) isExpr()   {}
func (*CallE) isExpr() {}
func (*Paren) isExpr() {}

func level(op string) int {
	switch op {
	case "*", "/":
		return 4
	case "+", "-":
		return 3
	case "==", "!=", "<", "<=", ">", ">=":
		return 2
	case "&&", "||":
		return 1
	}
	return 5
}

func exprLevel(e Expr) int {
	if b, ok := e.(*Bin); ok {
		return level(b.Op)
	}
	return 5
}

// Printer renders with only the parentheses the reference precedence and left
// associativity require, plus optional random whitespace.
type Printer struct {
	R      *rand.Rand // nil: canonical single spaces
	Spaces bool
}

func (p *Printer) sp() string {
	if p.R == nil {
		return " "
	}
	switch p.R.Intn(8) {
	case 0:
		return ""
	case 1:
		return "  "
	case 2:
		return "\t"
	default:
		return " "
	}
}

// kw prints a keyword; keywords are case-insensitive in the DSL, one in ten is printed in another case.
func (p *Printer) kw(w string) string {
	if p.R == nil || p.R.Intn(10) != 0 {
		return w
	}
	switch p.R.Intn(3) {
	case 0:
		return strings.ToUpper(w)
	case 1:
		return strings.ToUpper(w[:1]) + strings.ToLower(w[1:])
	}
	return strings.ToLower(w)
}

func (p *Printer) Expr(e Expr) string {
	switch x := e.(type) {
	case *Lit:
		return x.Text
	case *Ref:
		return x.Name
	case *At:
		return "@" + x.Which
	case *Elem:
		switch {
		case x.KeyStr != nil:
			return fmt.Sprintf("%s[\"%s\"]", x.Cont, *x.KeyStr)
		case x.KeyInt != nil:
			return fmt.Sprintf("%s[%d]", x.Cont, *x.KeyInt)
		default:
			return fmt.Sprintf("%s[%s]", x.Cont, x.KeyVar)
		}
	case *Paren:
		return "(" + p.sp() + p.Expr(x.X) + p.sp() + ")"
	case *Not:
		switch x.X.(type) {
		case *Lit, *Ref, *Elem, *At, *CallE:
			return "!" + p.Expr(x.X)
		case *Paren:
			return "!" + p.Expr(x.X)
		default:
			return "!(" + p.Expr(x.X) + ")"
		}
	case *CallE:
		args := make([]string, len(x.Args))
		for i, a := range x.Args {
			args[i] = p.Expr(a)
		}
		return x.Name + "(" + strings.Join(args, ","+p.sp()) + ")"
	case *Bin:
		l, r := p.Expr(x.L), p.Expr(x.R)
		lv := level(x.Op)
		if exprLevel(x.L) < lv {
			l = "(" + l + ")"
		}
		if exprLevel(x.R) <= lv {
			r = "(" + r + ")"
		}
		// a literal with a leading minus directly after a binary minus must keep a space: a - -3
		s1, s2 := p.sp(), p.sp()
		if strings.HasPrefix(r, "-") && s2 == "" {
			s2 = " "
		}
		if x.Op == "/" && strings.HasPrefix(r, "/") {
			s2 = " "
		}
		return l + s1 + x.Op + s2 + r
	}
	return "?"
}

// ---- statements ----

type Stmt interface{ isStmt() }

type Assign struct {
	Target string // simple name, dotted path
	Elem   *Elem  // container element target (Target empty)
	Op     string // = := += -= *= /=
	E      Expr
}

type ElseIf struct {
	Cond Expr
	Body []Stmt
}

type If struct {
	Cond    Expr
	Then    []Stmt
	ElseIfs []ElseIf
	Else    []Stmt
	HasElse bool
}

type For struct {
	Init, Step *Assign
	Cond       Expr
	Body       []Stmt
}

type ForRange struct {
	Key  string
	Cont string
	Body []Stmt
}

type Break struct{}
type Continue struct{}

// Return may only be the last statement of a block.
type Return struct{ E Expr }

type CallS struct{ C *CallE }

type Conc struct{ Members []Stmt }

func (*Assign) isStmt()   {}
func (*If) isStmt()       {}
func (*For) isStmt()      {}
func (*ForRange) isStmt() {}
func (*Break) isStmt()    {}
func (*Continue) isStmt() {}
func (*Return) isStmt()   {}
func (*CallS) isStmt()    {}
func (*Conc) isStmt()     {}

func (p *Printer) nl(ind int) string {
	if p.R != nil && p.R.Intn(10) == 0 {
		return " // c" + fmt.Sprint(p.R.Intn(100)) + "\n" + strings.Repeat("  ", ind)
	}
	if p.R != nil && p.R.Intn(12) == 0 {
		return "\n\n" + strings.Repeat("  ", ind)
	}
	return "\n" + strings.Repeat("  ", ind)
}

func (p *Printer) assign(a *Assign) string {
	t := a.Target
	if a.Elem != nil {
		t = p.Expr(a.Elem)
	}
	return t + p.sp() + a.Op + p.sp() + p.Expr(a.E)
}

func (p *Printer) Block(ss []Stmt, ind int) string {
	var b strings.Builder
	for _, s := range ss {
		b.WriteString(p.nl(ind))
		b.WriteString(p.Stmt(s, ind))
	}
	return b.String()
}

func (p *Printer) Stmt(s Stmt, ind int) string {
	switch x := s.(type) {
	case *Assign:
		return p.assign(x)
	case *CallS:
		return p.Expr(x.C)
	case *Break:
		return p.kw("break")
	case *Continue:
		return p.kw("continue")
	case *Return:
		if x.E == nil {
			return "return"
		}
		return "return " + p.Expr(x.E)
	case *If:
		var b strings.Builder
		b.WriteString(p.kw("if") + " " + p.Expr(x.Cond) + " {" + p.Block(x.Then, ind+1) + p.nl(ind) + "}")
		for _, ei := range x.ElseIfs {
			b.WriteString(" " + p.kw("else") + " " + p.kw("if") + " " + p.Expr(ei.Cond) + " {" + p.Block(ei.Body, ind+1) + p.nl(ind) + "}")
		}
		if x.HasElse {
			b.WriteString(" " + p.kw("else") + " {" + p.Block(x.Else, ind+1) + p.nl(ind) + "}")
		}
		return b.String()
	case *For:
		return p.kw("for") + " " + p.assign(x.Init) + "; " + p.Expr(x.Cond) + "; " + p.assign(x.Step) + " {" + p.Block(x.Body, ind+1) + p.nl(ind) + "}"
	case *ForRange:
		return p.kw("forRange") + " " + x.Key + " := " + x.Cont + " {" + p.Block(x.Body, ind+1) + p.nl(ind) + "}"
	case *Conc:
		return p.kw("conc") + " {" + p.Block(x.Members, ind+1) + p.nl(ind) + "}"
	}
	return "?"
}

// RuleMeta is the header of one rule.
type RuleMeta struct {
	Name    string
	Desc    string
	HasDesc bool
	Sal     int64
	HasSal  bool
}

func (m RuleMeta) Header() string {
	s := fmt.Sprintf("rule \"%s\"", m.Name)
	if m.HasDesc {
		s += fmt.Sprintf(" \"%s\"", m.Desc)
	}
	if m.HasSal {
		s += fmt.Sprintf(" salience %d", m.Sal)
	}
	return s
}

// ID is the reference meaning of @id: the name read as a decimal integer, 0 if it is not one.
func (m RuleMeta) ID() int64 {
	var v int64
	n := m.Name
	if n == "" {
		return 0
	}
	neg := false
	i := 0
	if n[0] == '-' || n[0] == '+' {
		neg = n[0] == '-'
		i = 1
		if len(n) == 1 {
			return 0
		}
	}
	var u uint64
	for ; i < len(n); i++ {
		c := n[i]
		if c < '0' || c > '9' {
			return 0
		}
		if u > (1<<63)/10+1 {
			return 0
		}
		u = u*10 + uint64(c-'0')
		if u > 1<<63 {
			return 0
		}
	}
	if neg {
		if u > 1<<63 {
			return 0
		}
		v = -int64(u)
	} else {
		if u > 1<<63-1 {
			return 0
		}
		v = int64(u)
	}
	return v
}
