package e1

import (
	"fmt"
	"math/rand"
	"runtime"
	"strings"
	"sync"
	"time"

	"github.com/bilibili/gengine/builder"
	"github.com/bilibili/gengine/context"
	"github.com/bilibili/gengine/engine"
	"verifharness/fw"
	"verifharness/trace"
)

type concMember struct {
	ID     int
	Cat    string // assign-local, assign-injected, func, method, three
	Fail   bool
	Text   string
	Target string // what is assigned
	Val    int64
	// Compound: `target += ev(id, Val)` on a local that holds -1 before the block; every pass of the block adds Val
	Compound bool
}

type concRule struct {
	reps    int // the block sits in a for loop that runs it this many times (1 = no loop)
	name    string
	base    int
	members []concMember
	afterID int
	text    string
	anyFail bool
	// second: a conc block that directly follows the first one (no statement in between) and reads a local
	// the first block assigned; 0 = none. secondSrc is the index of that member.
	second    int
	secondSrc int
}

type valRec struct {
	mu sync.Mutex
	m  map[int64]interface{}
}

func (v *valRec) rv(id int64, x interface{}) {
	v.mu.Lock()
	v.m[id] = x
	v.mu.Unlock()
}

// RunC18: generated conc blocks, one per rule, several rules per compiled text.
func RunC18(k *fw.Case) {
	r := k.Rng
	procs := []int{1, 2, 4, 16}[r.Intn(4)]
	prev := runtime.GOMAXPROCS(procs)
	defer runtime.GOMAXPROCS(prev)

	obs := trace.NewObs()
	co := obs.NewConcTarget()
	vals := &valRec{m: map[int64]interface{}{}}
	nRules := 5
	var rules []*concRule
	var text strings.Builder
	lagCat := []string{"assign-local", "assign-injected", "func", "method", "three"}[(k.Index)%5]
	injFields := []string{"CO.F1", "CO.F2", "CO.F3", "CO.F4"}
	for i := 0; i < nRules; i++ {
		cr := &concRule{name: fmt.Sprintf("c%d", i), base: (i + 1) * 100}
		var preExisting []string
		n := 1 + r.Intn(8)
		wide := r.Intn(4) == 0
		if wide {
			// a wide block: many local-writing assignments next to local-reading calls
			n = 14 + r.Intn(10)
		}
		usedInj := 0
		var b strings.Builder
		var mb strings.Builder // members are rendered first: the locals that must pre-exist are known afterwards
		var after strings.Builder
		failProb := 0.0
		if r.Intn(3) == 0 {
			failProb = 0.3
			if wide && r.Intn(2) == 0 {
				failProb = 0.8 // most members of a wide block fail at once
			}
		}
		for j := 0; j < n; j++ {
			m := concMember{ID: cr.base + 1 + j, Val: int64(1000*(i+1) + j)}
			cat := []string{"assign-local", "assign-injected", "func", "method", "three"}[r.Intn(5)]
			if wide {
				cat = []string{"assign-local", "func", "assign-local", "method"}[j%4]
			}
			if cat == "assign-injected" && (usedInj >= len(injFields) || i > 0) {
				// injected fields are distinct per block and only used by the first rule (later rules would overwrite)
				cat = "assign-local"
			}
			m.Cat = cat
			m.Fail = r.Float64() < failProb
			switch cat {
			case "assign-local":
				m.Target = fmt.Sprintf("cx%d", j)
				if r.Intn(3) == 0 {
					// a local that already exists before the block and is re-assigned inside it
					m.Target = fmt.Sprintf("px%d", j)
					preExisting = append(preExisting, m.Target)
				}
				if m.Fail && r.Intn(3) == 0 {
					// a failing assignment of another kind: the target is a field of a name that does not exist
					m.Text = fmt.Sprintf("ghost%d.F = fl(%d)", j, m.ID)
				} else if m.Fail {
					m.Text = fmt.Sprintf("%s = 1 / fl(%d)", m.Target, m.ID)
				} else if strings.HasPrefix(m.Target, "px") && r.Intn(2) == 0 {
					// a compound update of a local that exists before the block (it holds -1)
					m.Text = fmt.Sprintf("%s += ev(%d, %d)", m.Target, m.ID, m.Val)
					m.Compound = true
					fmt.Fprintf(&after, "  rv(%d, %s)\n", m.ID, m.Target)
				} else {
					m.Text = fmt.Sprintf("%s = ev(%d, %d)", m.Target, m.ID, m.Val)
					if r.Intn(2) == 0 {
						// the right-hand side reads a local assigned before the block while siblings write locals
						m.Val = int64(7000 + i)
						m.Text = fmt.Sprintf("%s = ev(%d, pre1)", m.Target, m.ID)
					}
					fmt.Fprintf(&after, "  rv(%d, %s)\n", m.ID, m.Target)
				}
			case "assign-injected":
				m.Target = injFields[usedInj]
				usedInj++
				m.Val = int64(10 + j)
				if m.Fail {
					m.Text = fmt.Sprintf("%s = 1 / fl(%d)", m.Target, m.ID)
				} else {
					m.Text = fmt.Sprintf("%s = ev(%d, %d)", m.Target, m.ID, m.Val)
					fmt.Fprintf(&after, "  rv(%d, %s)\n", m.ID, m.Target)
				}
			case "func":
				if m.Fail {
					m.Text = fmt.Sprintf("pn(%d)", m.ID)
				} else if r.Intn(2) == 0 {
					m.Text = fmt.Sprintf("ev(%d, pre2)", m.ID)
				} else {
					m.Text = fmt.Sprintf("en(%d)", m.ID)
				}
			case "method":
				if m.Fail {
					m.Text = fmt.Sprintf("CO.MP(%d)", m.ID)
				} else if r.Intn(2) == 0 {
					// the receiver is a LOCAL that holds the injected object (a dotted name headed by a local)
					m.Text = fmt.Sprintf("lco.M(%d)", m.ID)
				} else {
					m.Text = fmt.Sprintf("CO.M(%d)", m.ID)
				}
			default:
				if m.Fail && r.Intn(2) == 0 {
					// a three-level call whose head is a LOCAL that is no struct at all: a fault like any other
					m.Text = fmt.Sprintf("pre1.a.b(fl(%d))", m.ID)
					break
				}
				m.Fail = false
				m.Text = fmt.Sprintf("CO.In.M3(%d)", m.ID)
			}
			if m.Fail {
				cr.anyFail = true
			}
			fmt.Fprintf(&mb, "    %s\n", m.Text)
			cr.members = append(cr.members, m)
		}
		cr.reps = 1
		if r.Intn(4) == 0 {
			cr.reps = 2 + r.Intn(2)
		}
		fmt.Fprintf(&b, "rule \"%s\" salience %d\nbegin\n  st(%d)\n  pre1 = %d\n  pre2 = %d\n  lco = CO\n", cr.name, 100-i, cr.base, 7000+i, 8000+i)
		for _, pv := range preExisting {
			fmt.Fprintf(&b, "  %s = -1\n", pv)
		}
		if cr.reps > 1 {
			// the block (and the statement after it) sit in a loop: every pass is a complete fork/join
			fmt.Fprintf(&b, "  for ci = 0; ci < %d; ci += 1 {\n  if ci >= 0 {\n", cr.reps)
		}
		if r.Intn(8) == 0 {
			b.WriteString("  conc {\n  }\n") // an EMPTY block: nothing to run, nothing fails, the next statement starts
			k.Count("empty_conc_blocks", 1)
		}
		b.WriteString("  conc {\n" + mb.String())
		cr.afterID = cr.base + 99
		if cr.reps == 1 && !cr.anyFail && r.Intn(3) == 0 {
			for j, m := range cr.members {
				if m.Cat == "assign-local" && !m.Fail {
					cr.second, cr.secondSrc = cr.base+90, j
					fmt.Fprintf(&b, "  }\n  conc {\n    sb2 = ev(%d, %s)\n", cr.second, m.Target)
					fmt.Fprintf(&after, "  rv(%d, sb2)\n", cr.second)
					break
				}
			}
		}
		if cr.reps > 1 {
			fmt.Fprintf(&b, "  }\n%s  st(%d)\n  }\n  }\nend\n", after.String(), cr.afterID)
		} else {
			fmt.Fprintf(&b, "  }\n%s  st(%d)\nend\n", after.String(), cr.afterID)
		}
		cr.text = b.String()
		text.WriteString(cr.text)
		rules = append(rules, cr)
	}
	dc := context.NewDataContext()
	for n, v := range obs.Apis() {
		dc.Add(n, v)
	}
	dc.Add("ev", obs.Ev)
	dc.Add("CO", co)
	dc.Add("rv", vals.rv)
	rb := builder.NewRuleBuilder(dc)
	if err := trace.CompileLocked(func() error { return rb.BuildRuleFromString(text.String()) }); err != nil {
		noCompile(k, "conc", err, text.String())
		return
	}
	// the compiled blocks are executed several times (fresh log, fresh holds each time): conc
	// blocks are cheap to run and every execution is another schedule
	reps := 6
	for rep := 0; rep < reps; rep++ {
		vals.reset()
		if !runConcOnce(k, r, rb, obs, vals, rules, text.String(), lagCat, procs, rep%3 == 2) {
			break
		}
	}
	k.Sample(map[string]interface{}{"rule": rules[0].text, "gomaxprocs": procs})
}

func (v *valRec) get(id int64) (interface{}, bool) {
	v.mu.Lock()
	defer v.mu.Unlock()
	x, ok := v.m[id]
	return x, ok
}

// runConcOnce executes the compiled rules once and checks the event log; false stops the case.
func runConcOnce(k *fw.Case, r *rand.Rand, rb *builder.RuleBuilder, obs *trace.Obs, vals *valRec, rules []*concRule, textS string, lagCat string, procs int, concurrentRules bool) bool {
	lg := trace.NewLog()
	// one laggard per block, preferring the rotating category
	holds := 0
	for _, cr := range rules {
		pick := -1
		for j, m := range cr.members {
			if m.Cat == lagCat {
				pick = j
				break
			}
		}
		if pick < 0 {
			pick = r.Intn(len(cr.members))
		}
		forbid := map[int]bool{cr.afterID: true}
		if cr.second != 0 {
			forbid[cr.second] = true
		}
		lg.SetHold(cr.members[pick].ID, &trace.Hold{Forbid: forbid, Delay: time.Duration(300+r.Intn(2000)) * time.Microsecond})
		holds++
	}
	obs.Use(lg)
	eng := engine.NewGengine()
	var eerr error
	var pan interface{}
	func() {
		defer func() { pan = recover() }()
		if concurrentRules {
			// the five rules - and so their conc blocks - overlap on one data context
			eerr = eng.ExecuteConcurrent(rb)
			k.Count("executions_with_overlapping_blocks", 1)
		} else {
			eerr = eng.Execute(rb, true)
		}
	}()
	evs := lg.Snapshot()
	k.Eval(len(rules))
	k.Count("events", int64(len(evs)))
	k.Count("holds_entered", int64(lg.HoldsEntered()))
	if pan != nil {
		k.Inconclusive("conc rule panicked into the caller (C09's subject): " + trunc(fmt.Sprint(pan), 200))
		return false
	}
	det := func(cr *concRule) map[string]interface{} {
		var es []string
		for _, e := range evs {
			es = append(es, e.String())
		}
		return map[string]interface{}{"rule": cr.text, "events": strings.Join(es, " "), "gomaxprocs": procs, "err": fmt.Sprint(eerr)}
	}
	anyFail := false
	pos := map[int][]int{} // id -> seqs of end events
	kinds := map[int][]byte{}
	start := map[int][]int{} // id -> seqs of 's'
	for _, e := range evs {
		if e.Kind == 's' {
			start[e.ID] = append(start[e.ID], e.Seq)
		} else {
			pos[e.ID] = append(pos[e.ID], e.Seq)
			kinds[e.ID] = append(kinds[e.ID], e.Kind)
		}
	}
	for _, cr := range rules {
		if cr.anyFail {
			anyFail = true
		}
		var cats []string
		for _, m := range cr.members {
			cats = append(cats, m.Cat)
			k.Count("members_"+m.Cat, 1)
			wantN := cr.reps
			if cr.anyFail {
				wantN = 1 // the first pass fails, the loop ends
			}
			if n := len(pos[m.ID]); n != wantN {
				k.Violate("member-count/"+m.Cat, fmt.Sprintf("conc member `%s` ran %d times (events at the moment the call returned), expected %d (the block is executed %d time(s))", m.Text, n, wantN, wantN), det(cr))
				continue
			}
			// pass p of the member must lie before the p-th "after" statement and after the (p-1)-th
			aft := start[cr.afterID]
			for pI, q := range pos[m.ID] {
				if pI < len(aft) && aft[pI] < q {
					k.Violate("join/"+m.Cat, fmt.Sprintf("the statement after the conc block started (seq %d) before member `%s` had finished (seq %d), pass %d", aft[pI], m.Text, q, pI+1), det(cr))
				}
				if pI > 0 && pI-1 < len(aft) && q < aft[pI-1] {
					k.Violate("join/"+m.Cat, fmt.Sprintf("member `%s` of pass %d ran (seq %d) before the statement after the previous pass (seq %d)", m.Text, pI+1, q, aft[pI-1]), det(cr))
				}
			}
			if !m.Fail && m.Target != "" && !cr.anyFail {
				got, ok := vals.get(int64(m.ID))
				want := m.Val
				if m.Compound {
					want = -1 + m.Val*int64(cr.reps)
				}
				if !ok {
					k.Violate("visibility/"+m.Cat, fmt.Sprintf("the value assigned by `%s` was not read after the block", m.Text), det(cr))
				} else if fmt.Sprint(got) != fmt.Sprint(want) {
					k.Violate("visibility/"+m.Cat, fmt.Sprintf("`%s`: the statement after the block read %v, expected %d", m.Text, got, want), det(cr))
				}
			}
		}
		if cr.second != 0 {
			k.Count("adjacent_second_blocks", 1)
			src := cr.members[cr.secondSrc]
			if n := len(pos[cr.second]); n != 1 {
				k.Violate("second-block/count", fmt.Sprintf("the member of the conc block that directly follows another conc block ran %d times, expected 1", n), det(cr))
			} else {
				for _, m := range cr.members {
					for _, q := range pos[m.ID] {
						if q > pos[cr.second][0] {
							k.Violate("second-block/join", fmt.Sprintf("a conc block that directly follows another one started its member (seq %d) before member `%s` of the first block had finished (seq %d)", pos[cr.second][0], m.Text, q), det(cr))
						}
					}
				}
				srcVal := src.Val
				if src.Compound {
					srcVal = src.Val - 1 // -1 + Val: the block runs once here
				}
				if got, ok := vals.get(int64(cr.second)); !ok || fmt.Sprint(got) != fmt.Sprint(srcVal) {
					k.Violate("second-block/visibility", fmt.Sprintf("the second of two adjacent conc blocks read %s = %v (present=%v), the first block left %d there", src.Target, got, ok, srcVal), det(cr))
				}
			}
		}
		nAfter := len(start[cr.afterID])
		if cr.anyFail && nAfter > 0 {
			k.Violate("error-dropped", "a conc member failed but the statements after the block ran", det(cr))
		}
		if !cr.anyFail && nAfter != cr.reps {
			k.Violate("after-count", fmt.Sprintf("the statement after a healthy conc block ran %d times, expected %d", nAfter, cr.reps), det(cr))
		}
		k.Distinct(strings.Join(cats, ","), cr.anyFail, len(cr.members))
	}
	if anyFail && eerr == nil {
		k.Violate("error-nil", "a conc member failed but the call returned a nil error", map[string]interface{}{"text": textS})
	}
	if !anyFail && eerr != nil {
		k.Violate("error-unexpected", "no conc member fails but the call returned an error: "+trunc(eerr.Error(), 300), map[string]interface{}{"text": textS})
	}
	time.Sleep(300 * time.Microsecond)
	if n := lg.Len(); n != len(evs) {
		k.Violate("late-events", fmt.Sprintf("%d event(s) of conc members were logged after the call had returned", n-len(evs)), map[string]interface{}{"text": textS, "gomaxprocs": procs})
	}
	return true
}

func (v *valRec) reset() {
	v.mu.Lock()
	v.m = map[int64]interface{}{}
	v.mu.Unlock()
}
