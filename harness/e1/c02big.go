package e1

import (
	"fmt"

	"github.com/bilibili/gengine/builder"
	"github.com/bilibili/gengine/context"

	"verifharness/fw"
	"verifharness/trace"
)

// runC02BigRange: `forRange` visits EVERY index / key exactly once - also of containers far larger than the
// iteration bound that gengine puts on `for` loops (no such bound is documented for forRange). A slice, a map
// and an array of more than 10 000 elements are walked; the rule counts the passes, sums the elements it
// reads through the key, and the host records every key it is shown.
func runC02BigRange(k *fw.Case) {
	r := k.Rng
	n := []int{10001, 10002, 10240, 10000 + r.Intn(3000), 20001}[r.Intn(5)]
	bigS := make([]int64, n)
	bigM := make(map[int64]int64, n)
	var wantSum int64
	for i := range bigS {
		bigS[i] = int64(i%7 + 1)
		bigM[int64(i)*3] = 1
		wantSum += bigS[i]
	}
	var bigA [10007]int32
	seenS := make([]int32, n)
	seenM := map[int64]int32{}
	var cnt, sum, mc, ac, last int64 = -1, -1, -1, -1, -1
	dc := context.NewDataContext()
	dc.Add("BigS", bigS)
	dc.Add("BigM", bigM)
	dc.Add("BigA", bigA)
	dc.Add("seeS", func(i int64) {
		if i >= 0 && int(i) < n {
			seenS[i]++
		}
	})
	dc.Add("seeM", func(i int64) { seenM[i]++ })
	dc.Add("bigdone", func(a, b, c, d, e int64) { cnt, sum, mc, ac, last = a, b, c, d, e })
	text := `rule "big" begin
  cnt = 0
  sum = 0
  forRange bi := BigS {
    cnt += 1
    sum += BigS[bi]
    seeS(bi)
  }
  mc = 0
  forRange bk := BigM {
    mc += 1
    seeM(bk)
  }
  ac = 0
  forRange ai := BigA {
    ac += 1
  }
  bigdone(cnt, sum, mc, ac, bi)
  return cnt
end
`
	rb := builder.NewRuleBuilder(dc)
	if err := trace.CompileLocked(func() error { return rb.BuildRuleFromString(text) }); err != nil {
		noCompile(k, "statement", err, text)
		return
	}
	res, err, pan := execSort(rb)
	k.Eval(1)
	k.Count("forrange_over_more_than_10000_elements", 3)
	det := map[string]interface{}{"text": text, "elements": n, "err": fmt.Sprint(err)}
	if pan != nil {
		k.Violate("panic", "forRange over a large container panicked into the caller: "+trunc(fmt.Sprint(pan), 200), det)
		return
	}
	once := 0
	for _, c := range seenS {
		if c == 1 {
			once++
		}
	}
	onceM := 0
	for _, c := range seenM {
		if c == 1 {
			onceM++
		}
	}
	if err != nil || cnt != int64(n) || sum != wantSum || once != n || last != int64(n-1) || res["big"] != interface{}(int64(n)) {
		k.Violate("forrange-large-slice", fmt.Sprintf("forRange over a slice of %d elements: %d passes counted, element sum %d (expected %d), %d indexes shown to the host exactly once, last index %d, result %v, error nil=%v - every index is visited exactly once",
			n, cnt, sum, wantSum, once, last, res["big"], err == nil), det)
		return
	}
	if mc != int64(n) || onceM != n || len(seenM) != n {
		k.Violate("forrange-large-map", fmt.Sprintf("forRange over a map of %d keys: %d passes counted, %d distinct keys shown to the host, %d of them exactly once", n, mc, len(seenM), onceM), det)
	}
	if ac != int64(len(bigA)) {
		k.Violate("forrange-large-array", fmt.Sprintf("forRange over an array of %d elements: %d passes counted", len(bigA), ac), det)
	}
	k.Distinct("bigrange", n)
}
