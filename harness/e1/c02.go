package e1

import (
	"fmt"
	"sort"
	"strings"

	"verifharness/fw"
	"verifharness/gen"
)

type prog struct {
	meta  gen.RuleMeta
	body  []gen.Stmt
	text  string
	stats map[string]int
	// reference outcome
	returned bool
	val      interface{}
	fault    bool
}

// RunC02: one compiled text with several generated statement programs, run in the sort
// model (distinct saliences fix the order), compared with the reference execution.
func RunC02(k *fw.Case) {
	r := k.Rng
	if k.Index%20 == 3 {
		runC02BigRange(k)
	}
	nProg := 5
	seed := r.Int63()
	fxG, fxR := gen.NewFixture(seed), gen.NewFixture(seed)
	p := &gen.Printer{R: r}
	bag := map[int64]bool{}
	var progs []*prog
	var text strings.Builder
	tableR := fxR.Table()
	for tries := 0; len(progs) < nProg && tries < nProg*6; tries++ {
		i := len(progs)
		sg := gen.NewSG(r, int64(i+1)*100000, 12+r.Intn(28))
		body := sg.Prologue()
		body = append(body, sg.Block(0, false, false)[1:]...)
		for sg.Budget > 6 && r.Intn(3) > 0 {
			body = append(body, sg.Block(0, false, false)[1:]...)
		}
		// optionally end with a return, else observe the final locals
		body = append(body, sg.Epilogue()...)
		if r.Intn(3) == 0 {
			body = append(body, &gen.Return{E: &gen.Bin{Op: "+", L: &gen.Ref{Name: "va"}, R: &gen.Ref{Name: "vb"}}})
		}
		pr := &prog{meta: gen.RuleMeta{Name: fmt.Sprintf("p%d", i), HasSal: true, Sal: int64(100 - i)}, body: body, stats: sg.Stats}
		// reference run on a trial copy first (to drop undefined programs without disturbing fxR)
		trial := gen.NewFixture(seed)
		replayInto(trial, progs)
		env := gen.NewEnv(trial.Table(), pr.meta)
		_, _, err := env.Run(body)
		if err == gen.ErrUndefined || env.Steps > 6000 {
			continue
		}
		for id := range sg.BagIDs {
			bag[id] = true
		}
		pr.text = pr.meta.Header() + "\nbegin" + p.Block(body, 1) + "\nend\n"
		text.WriteString(pr.text)
		progs = append(progs, pr)
	}
	// reference execution of all programs in priority order on fxR
	for _, pr := range progs {
		env := gen.NewEnv(tableR, pr.meta)
		ret, val, err := env.Run(pr.body)
		pr.returned, pr.val, pr.fault = ret, val, err != nil
	}
	rb, err := compile(fxG, text.String())
	if err != nil {
		noCompile(k, "statement", err, text.String())
		return
	}
	res, eerr, pan := execSort(rb)
	k.Eval(len(progs))
	if pan != nil {
		k.Violate("panic", "statement program panicked into the caller: "+trunc(fmt.Sprint(pan), 200), map[string]interface{}{"text": text.String()})
		return
	}
	det := func(extra map[string]interface{}) map[string]interface{} {
		extra["text"] = text.String()
		return extra
	}
	anyFault := false
	for _, pr := range progs {
		if pr.fault {
			anyFault = true
		}
		got, present := res[pr.meta.Name]
		switch {
		case pr.returned && !present:
			k.Violate("return-missing", fmt.Sprintf("program %s must return %s but has no result entry", pr.meta.Name, gen.Show(pr.val)), det(map[string]interface{}{"program": pr.text}))
		case !pr.returned && present:
			k.Violate("return-unexpected", fmt.Sprintf("program %s must not return (fault=%v) but the result map holds %s", pr.meta.Name, pr.fault, gen.Show(got)), det(map[string]interface{}{"program": pr.text}))
		case pr.returned && !gen.SameValue(got, pr.val):
			k.Violate("return-value", fmt.Sprintf("program %s must return %s, got %s", pr.meta.Name, gen.Show(pr.val), gen.Show(got)), det(map[string]interface{}{"program": pr.text}))
		}
		var sig []string
		for s, n := range pr.stats {
			if n > 0 {
				sig = append(sig, fmt.Sprintf("%s%d", s, n))
			}
		}
		sort.Strings(sig)
		k.Distinct(strings.Join(sig, ","), pr.returned, pr.fault)
		for s, n := range pr.stats {
			k.Count("stmt_"+s, int64(n))
		}
	}
	if anyFault != (eerr != nil) {
		k.Violate("error-nilness", fmt.Sprintf("reference: some program fails=%v, call error nil=%v", anyFault, eerr == nil), det(map[string]interface{}{"err": fmt.Sprint(eerr)}))
	}
	tg := gen.NormalizeTrace(fxG.Rec.Snapshot(), bag)
	tr := gen.NormalizeTrace(fxR.Rec.Snapshot(), bag)
	k.Count("trace_events", int64(len(tg)))
	if !gen.SameTrace(tg, tr) {
		i := 0
		for i < len(tg) && i < len(tr) && gen.SameTrace(tg[i:i+1], tr[i:i+1]) {
			i++
		}
		pn := int64(-1)
		if i < len(tr) {
			pn = tr[i].ID / 100000
		} else if i < len(tg) {
			pn = tg[i].ID / 100000
		}
		k.Violate("trace", fmt.Sprintf("executed path differs from the reference at event %d (program p%d): reference %s, gengine %s", i, pn-1, showEv(tr, i), showEv(tg, i)),
			det(map[string]interface{}{"reference_trace": showTrace(tr, i), "gengine_trace": showTrace(tg, i)}))
	}
	if d := gen.DiffState(fxR.State(), fxG.State()); len(d) > 0 {
		k.Violate("host-state", fmt.Sprintf("injected data after the call differs from the reference in %v", d), det(map[string]interface{}{"reference": fmt.Sprintf("%+v", fxR.State()), "gengine": fmt.Sprintf("%+v", fxG.State())}))
	}
	if len(progs) > 0 {
		k.Sample(map[string]interface{}{"program": trunc(progs[0].text, 1500), "returned": progs[0].returned, "fault": progs[0].fault})
	}
}

func replayInto(fx *gen.Fixture, progs []*prog) {
	t := fx.Table()
	for _, pr := range progs {
		env := gen.NewEnv(t, pr.meta)
		env.Run(pr.body)
	}
}

func showEv(t []gen.TraceEv, i int) string {
	if i >= len(t) {
		return "<end of trace>"
	}
	var a []string
	for _, x := range t[i].Args {
		a = append(a, gen.Show(x))
	}
	return fmt.Sprintf("%d(%s)", t[i].ID, strings.Join(a, ","))
}

func showTrace(t []gen.TraceEv, around int) string {
	lo, hi := around-8, around+4
	if lo < 0 {
		lo = 0
	}
	if hi > len(t) {
		hi = len(t)
	}
	var b []string
	for i := lo; i < hi; i++ {
		b = append(b, showEv(t, i))
	}
	return strings.Join(b, " ")
}
