package e1

import "testing"

func TestMatrixSize(t *testing.T) { t.Logf("cells=%d cases=%d", len(matrixCells), MatrixCases()) }
