package e1

import (
	"fmt"
	"reflect"
	"sort"
	"strconv"
	"strings"
	"time"

	"github.com/bilibili/gengine/builder"
	"github.com/bilibili/gengine/context"
	"github.com/bilibili/gengine/engine"
	"verifharness/fw"
	"verifharness/gen"
	"verifharness/trace"
)

// ---- C03 (a): conversion matrix source kind x target ----

type srcKind struct {
	name string
	typ  reflect.Type // Go type of the value the source expression yields
	mk   func(j int, v interface{}) (expr gen.Expr, inject map[string]interface{})
}

type target struct {
	name  string
	typ   reflect.Type
	cross bool // conversions across int/uint/float classes promised (struct fields, pointer scalars, parameters)
	// stmts builds the statements performing the store/pass of src and the read-back observation
	stmts func(id int64, src gen.Expr) []gen.Stmt
	pre   func(j int) ([]gen.Stmt, map[string]interface{})
}

var (
	tI, tI8, tI16, tI32, tI64 = reflect.TypeOf(int(0)), reflect.TypeOf(int8(0)), reflect.TypeOf(int16(0)), reflect.TypeOf(int32(0)), reflect.TypeOf(int64(0))
	tU, tU8, tU16, tU32, tU64 = reflect.TypeOf(uint(0)), reflect.TypeOf(uint8(0)), reflect.TypeOf(uint16(0)), reflect.TypeOf(uint32(0)), reflect.TypeOf(uint64(0))
	tF32, tF64                = reflect.TypeOf(float32(0)), reflect.TypeOf(float64(0))
)

var numTypes = []reflect.Type{tI, tI8, tI16, tI32, tI64, tU, tU8, tU16, tU32, tU64, tF32, tF64}

func il(v int64) *gen.Lit { return &gen.Lit{V: v, Text: strconv.FormatInt(v, 10)} }

func sources() []srcKind {
	ss := []srcKind{
		{"int-literal", tI64, func(j int, v interface{}) (gen.Expr, map[string]interface{}) { return il(v.(int64)), nil }},
		{"real-literal", tF64, func(j int, v interface{}) (gen.Expr, map[string]interface{}) {
			f := v.(float64)
			t := strconv.FormatFloat(f, 'f', -1, 64)
			if !strings.Contains(t, ".") {
				t += ".0"
			}
			return &gen.Lit{V: f, Text: t}, nil
		}},
		{"int64-arith", tI64, func(j int, v interface{}) (gen.Expr, map[string]interface{}) {
			n := fmt.Sprintf("sv%d", j)
			return &gen.Bin{Op: "+", L: &gen.Ref{Name: n}, R: il(0)}, map[string]interface{}{n: v}
		}},
		{"uint64-arith", tU64, func(j int, v interface{}) (gen.Expr, map[string]interface{}) {
			n := fmt.Sprintf("sv%d", j)
			return &gen.Bin{Op: "+", L: &gen.Ref{Name: n}, R: &gen.Ref{Name: "uzero"}}, map[string]interface{}{n: v, "uzero": uint8(0)}
		}},
		{"float64-arith", tF64, func(j int, v interface{}) (gen.Expr, map[string]interface{}) {
			n := fmt.Sprintf("sv%d", j)
			return &gen.Bin{Op: "*", L: &gen.Ref{Name: n}, R: &gen.Lit{V: 1.0, Text: "1.0"}}, map[string]interface{}{n: v}
		}},
	}
	for _, t := range numTypes {
		t := t
		ss = append(ss, srcKind{"read-" + t.Kind().String(), t, func(j int, v interface{}) (gen.Expr, map[string]interface{}) {
			n := fmt.Sprintf("sv%d", j)
			return &gen.Ref{Name: n}, map[string]interface{}{n: v}
		}})
	}
	return ss
}

func tvS(id int64, e gen.Expr) gen.Stmt {
	return &gen.CallS{C: &gen.CallE{Name: "tv", Args: []gen.Expr{il(id), e}}}
}

func fieldTarget(path string, t reflect.Type) target {
	return target{name: "field " + path, typ: t, cross: true, stmts: func(id int64, src gen.Expr) []gen.Stmt {
		return []gen.Stmt{&gen.Assign{Target: path, Op: "=", E: src}, tvS(id, &gen.Ref{Name: path})}
	}}
}

func ptrTarget(name string, t reflect.Type) target {
	// reading a pointer-injected scalar yields the pointer; the stored value is checked through the final host state
	return target{name: "pointer scalar " + name, typ: t, cross: true, stmts: func(id int64, src gen.Expr) []gen.Stmt {
		return []gen.Stmt{&gen.Assign{Target: name, Op: "=", E: src}}
	}}
}

func elemTarget(cont string, t reflect.Type, ks *string, ki *int64, keyVarInit gen.Expr) target {
	nm := "element " + cont
	return target{name: nm, typ: t, cross: false, stmts: func(id int64, src gen.Expr) []gen.Stmt {
		el := &gen.Elem{Cont: cont, KeyStr: ks, KeyInt: ki}
		var pre []gen.Stmt
		if keyVarInit != nil {
			el = &gen.Elem{Cont: cont, KeyVar: "kv"}
			pre = append(pre, &gen.Assign{Target: "kv", Op: "=", E: keyVarInit})
		}
		return append(pre, &gen.Assign{Elem: el, Op: "=", E: src}, tvS(id, el))
	}}
}

func paramTarget(fn string, pos int, nargs []gen.Expr, t reflect.Type) target {
	return target{name: fmt.Sprintf("parameter %d of %s", pos, fn), typ: t, cross: true, stmts: func(id int64, src gen.Expr) []gen.Stmt {
		args := []gen.Expr{il(id)}
		for i, a := range nargs {
			if i == pos {
				args = append(args, src)
			} else {
				args = append(args, a)
			}
		}
		if !strings.Contains(fn, "Sum") {
			return []gen.Stmt{&gen.CallS{C: &gen.CallE{Name: fn, Args: args}}}
		}
		// Sum(a int64, b uint16) has no id parameter: observe its result
		return []gen.Stmt{tvS(id, &gen.CallE{Name: fn, Args: args[1:]})}
	}}
}

func sp(s string) *string { return &s }
func ip(i int64) *int64   { return &i }

func targets() []target {
	ts := []target{}
	for _, t := range numTypes {
		n := strings.ToUpper(t.Kind().String()[:1])
		k := t.Kind().String()
		// H.I, H.I8 ... H.U64, H.F32, H.F64
		var f string
		switch {
		case strings.HasPrefix(k, "int"):
			f = "I" + strings.TrimPrefix(k, "int")
		case strings.HasPrefix(k, "uint"):
			f = "U" + strings.TrimPrefix(k, "uint")
		default:
			f = "F" + strings.TrimPrefix(k, "float")
		}
		_ = n
		ts = append(ts, fieldTarget("H."+f, t))
	}
	for _, p := range []string{"H.In", "H.Pn"} {
		ts = append(ts, fieldTarget(p+".X", tI64), fieldTarget(p+".Y", tU16), fieldTarget(p+".Z", tF64), fieldTarget(p+".W", tI8), fieldTarget(p+".F3", tF32))
	}
	// promoted fields of embedded structs, one and two levels deep
	ts = append(ts, fieldTarget("H.EI", tI64), fieldTarget("H.EU", tU16), fieldTarget("H.EF", tF64), fieldTarget("H.In.DX", reflect.TypeOf(int32(0))), fieldTarget("H.Pn.DX", reflect.TypeOf(int32(0))))
	// fields of named types over int64 / float64 (time.Duration, type Level int64, type Ratio float64)
	ts = append(ts, fieldTarget("H.Lv", reflect.TypeOf(gen.Level(0))), fieldTarget("H.Dur", reflect.TypeOf(time.Duration(0))), fieldTarget("H.Rt", reflect.TypeOf(gen.Ratio(0))))
	ts = append(ts,
		ptrTarget("PI8", tI8), ptrTarget("PI64", tI64), ptrTarget("PU16", tU16), ptrTarget("PU64", tU64), ptrTarget("PF32", tF32), ptrTarget("PF64", tF64),
		// containers, literal keys
		elemTarget("M64", tI64, sp("a"), nil, nil), elemTarget("M64", tI64, sp("fresh"), nil, nil), elemTarget("MU8", tU8, sp("a"), nil, nil), elemTarget("MF", tF64, sp("b"), nil, nil),
		elemTarget("MIK", tI32, nil, ip(1), nil), elemTarget("MIK", tI32, nil, ip(-7), nil), elemTarget("MK8", tU16, nil, ip(5), nil), elemTarget("MKU", tI64, nil, ip(9), nil),
		elemTarget("PM", reflect.TypeOf(int32(0)), sp("a"), nil, nil), elemTarget("PS", tI64, nil, ip(1), nil), elemTarget("PSU", tU16, nil, ip(0), nil), elemTarget("PSF", tF32, nil, ip(1), nil),
		elemTarget("PA", tI16, nil, ip(4), nil), elemTarget("VS", tI64, nil, ip(0), nil), elemTarget("H.MS", tI64, sp("a"), nil, nil), elemTarget("H.SL", tI32, nil, ip(0), nil), elemTarget("H.AR", tU8, nil, ip(3), nil),
		// containers, variable keys
		elemTarget("M64", tI64, nil, nil, &gen.Lit{V: "b", Text: "\"b\""}), elemTarget("MIK", tI32, nil, nil, il(100)), elemTarget("MK8", tU16, nil, nil, &gen.Ref{Name: "k8"}),
		elemTarget("MKU", tI64, nil, nil, &gen.Ref{Name: "ku16"}), elemTarget("PS", tI64, nil, nil, il(2)), elemTarget("PA", tI16, nil, nil, il(0)), elemTarget("PSF", tF32, nil, nil, il(2)),
		elemTarget("H.SL", tI32, nil, nil, il(3)), elemTarget("PM", tI32, nil, nil, &gen.Lit{V: "b", Text: "\"b\""}),
		// parameters
		paramTarget("ti", 0, []gen.Expr{il(1), il(2), il(3), il(4)}, tI8), paramTarget("ti", 1, []gen.Expr{il(1), il(2), il(3), il(4)}, tU16),
		paramTarget("ti", 2, []gen.Expr{il(1), il(2), il(3), il(4)}, tI64), paramTarget("ti", 3, []gen.Expr{il(1), il(2), il(3), il(4)}, tU64),
		paramTarget("tf", 0, []gen.Expr{il(1), il(2)}, tF32), paramTarget("tf", 1, []gen.Expr{il(1), il(2)}, tF64),
		paramTarget("tu", 0, []gen.Expr{il(1), il(2), il(3), il(4)}, tU8), paramTarget("tu", 1, []gen.Expr{il(1), il(2), il(3), il(4)}, tU32),
		paramTarget("tu", 2, []gen.Expr{il(1), il(2), il(3), il(4)}, tI), paramTarget("tu", 3, []gen.Expr{il(1), il(2), il(3), il(4)}, tU),
		paramTarget("t16", 0, []gen.Expr{il(1), il(2)}, tI16), paramTarget("t16", 1, []gen.Expr{il(1), il(2)}, tI32),
		paramTarget("H.Rec3", 0, []gen.Expr{il(1), il(2), il(3)}, tI8), paramTarget("H.Rec3", 1, []gen.Expr{il(1), il(2), il(3)}, tU32), paramTarget("H.Rec3", 2, []gen.Expr{il(1), il(2), il(3)}, tF32),
		paramTarget("H.Pn.Sum", 0, []gen.Expr{il(1), il(2)}, tI64), paramTarget("H.In.Sum", 1, []gen.Expr{il(1), il(2)}, tU16),
	)
	return ts
}

// candidates returns up to n boundary values of type src.typ that are representable in dst
// under the promise (cross-class or within class).
func candidates(src, dst reflect.Type, cross bool, n int) []interface{} {
	var pool []interface{}
	for _, v := range gen.I64Pool {
		pool = append(pool, v)
	}
	for _, v := range gen.U64Pool {
		pool = append(pool, v)
	}
	for _, v := range gen.F64Pool {
		pool = append(pool, v)
	}
	for _, v := range gen.F32Pool {
		pool = append(pool, float64(v))
	}
	seen := map[string]bool{}
	var out []interface{}
	for _, c := range pool {
		sv, ok := gen.ConvertTo(c, src, true)
		if !ok {
			continue
		}
		if _, ok := gen.ConvertTo(sv, dst, cross); !ok {
			continue
		}
		key := gen.Show(sv)
		if seen[key] {
			continue
		}
		if f, isF := sv.(float64); isF && (f > 1e19 || f < -1e19) {
			continue // keeps real literals short
		}
		seen[key] = true
		out = append(out, sv)
	}
	sort.Slice(out, func(i, j int) bool { return less(out[i], out[j]) })
	if len(out) <= n {
		return out
	}
	// min, max and evenly spread in between
	pick := []interface{}{out[0]}
	for i := 1; i < n-1; i++ {
		pick = append(pick, out[i*(len(out)-1)/(n-1)])
	}
	return append(pick, out[len(out)-1])
}

func less(a, b interface{}) bool {
	c, _ := gen.Compare("<", a, b)
	return c
}

type matrixCell struct {
	s srcKind
	t target
}

var matrixCells []matrixCell

func init() {
	for _, s := range sources() {
		for _, t := range targets() {
			if len(candidates(s.typ, t.typ, t.cross, 5)) == 0 {
				continue
			}
			matrixCells = append(matrixCells, matrixCell{s, t})
		}
	}
}

// MatrixCases is the number of cases the exhaustive matrix needs (cellsPerCase cells each).
const cellsPerCase = 5

func MatrixCases() int { return (len(matrixCells) + cellsPerCase - 1) / cellsPerCase }

func compileWith(fx *gen.Fixture, extra map[string]interface{}, text string) (*builder.RuleBuilder, error) {
	dc := context.NewDataContext()
	for k, v := range fx.Table() {
		dc.Add(k, v)
	}
	for k, v := range extra {
		dc.Add(k, v)
	}
	rb := builder.NewRuleBuilder(dc)
	err := trace.CompileLocked(func() error { return rb.BuildRuleFromString(text) })
	return rb, err
}

type hostRule struct {
	meta  gen.RuleMeta
	body  []gen.Stmt
	text  string
	key   string // violation key class
	desc  string
	fault bool
	ret   bool
	val   interface{}
}

// runHostRules compiles the rules, executes them in priority order on both sides and compares
// per-rule outcome, the observer trace and the final host state.
func runHostRules(k *fw.Case, seed int64, rules []*hostRule, extra map[string]interface{}, prop string) {
	fxG, fxR := gen.NewFixture(seed), gen.NewFixture(seed)
	tableR := fxR.Table()
	for n, v := range extra {
		tableR[n] = v
	}
	p := &gen.Printer{R: k.Rng}
	var text strings.Builder
	var kept []*hostRule
	for _, ru := range rules {
		// trial run to drop rules whose outcome the property does not define
		trial := gen.NewFixture(seed)
		tt := trial.Table()
		for n, v := range extra {
			tt[n] = v
		}
		for _, pr := range kept {
			gen.NewEnv(tt, pr.meta).Run(pr.body)
		}
		if _, _, err := gen.NewEnv(tt, ru.meta).Run(ru.body); err == gen.ErrUndefined {
			k.Count("dropped_undefined", 1)
			continue
		}
		ru.meta.HasSal = true
		ru.meta.Sal = int64(1000 - len(kept))
		if !endsWithReturn(ru.body) {
			ru.body = append(ru.body, &gen.CallS{C: &gen.CallE{Name: "tr", Args: []gen.Expr{il(ruleIndex(ru)*1000 + 999)}}})
		}
		ru.text = ru.meta.Header() + "\nbegin" + p.Block(ru.body, 1) + "\nend\n"
		text.WriteString(ru.text)
		kept = append(kept, ru)
	}
	if len(kept) == 0 {
		return
	}
	for _, ru := range kept {
		ret, val, err := gen.NewEnv(tableR, ru.meta).Run(ru.body)
		ru.ret, ru.val, ru.fault = ret, val, err != nil
	}
	rb, err := compileWith(fxG, extra, text.String())
	if err != nil {
		noCompile(k, "host-access", err, text.String())
		return
	}
	res, eerr, pan := execSort(rb)
	k.Eval(len(kept))
	if pan != nil {
		k.Violate("panic", "host-access program panicked into the caller: "+trunc(fmt.Sprint(pan), 200), map[string]interface{}{"text": text.String()})
		return
	}
	tg, tr := fxG.Rec.Snapshot(), fxR.Rec.Snapshot()
	k.Count("observer_events", int64(len(tg)))
	// attribute differences to rules through the observer ids (id / 1000 = rule index)
	byRule := func(t []gen.TraceEv) map[int64][]gen.TraceEv {
		m := map[int64][]gen.TraceEv{}
		for _, e := range t {
			m[e.ID/1000] = append(m[e.ID/1000], e)
		}
		return m
	}
	mg, mr := byRule(tg), byRule(tr)
	anyFault := false
	for _, ru := range kept {
		rid := ruleIndex(ru)
		if ru.fault {
			anyFault = true
		}
		d := map[string]interface{}{"rule": ru.text, "what": ru.desc, "reference_fault": ru.fault}
		completed := false
		for _, e := range mg[rid] {
			if e.ID == rid*1000+999 {
				completed = true
			}
		}
		if ru.fault && completed {
			k.Violate(ru.key+"/must-fail", fmt.Sprintf("%s: the rule must fail but ran to its end", ru.desc), d)
			continue
		}
		if !ru.fault && !completed && !ru.ret {
			if eerr != nil {
				d["err"] = trunc(eerr.Error(), 600)
			}
			d["gengine_observed"] = showTrace(mg[rid], 4)
			k.Violate(ru.key+"/fails", fmt.Sprintf("%s: the rule did not run to its end although the store/call is promised to work", ru.desc), d)
			continue
		}
		if !gen.SameTrace(mg[rid], mr[rid]) {
			d["reference_observed"] = showTrace(mr[rid], 4)
			d["gengine_observed"] = showTrace(mg[rid], 4)
			k.Violate(ru.key+"/observed", fmt.Sprintf("%s: observer saw %s, reference %s", ru.desc, showTrace(mg[rid], 4), showTrace(mr[rid], 4)), d)
			continue
		}
		got, present := res[ru.meta.Name]
		if present != ru.ret || (present && !gen.SameValue(got, ru.val)) {
			k.Violate(ru.key+"/result", fmt.Sprintf("%s: result entry %v %s, reference %v %s", ru.desc, present, gen.Show(got), ru.ret, gen.Show(ru.val)), d)
		}
	}
	if anyFault != (eerr != nil) {
		k.Violate("error-nilness", fmt.Sprintf("reference: some rule fails=%v, call error nil=%v", anyFault, eerr == nil), map[string]interface{}{"text": text.String(), "err": fmt.Sprint(eerr)})
	}
	if d := gen.DiffState(fxR.State(), fxG.State()); len(d) > 0 {
		k.Violate("host-state/"+strings.Join(d, "+"), fmt.Sprintf("injected data after the call differs from the reference in %v", d),
			map[string]interface{}{"text": text.String(), "reference": fmt.Sprintf("%+v", fxR.State()), "gengine": fmt.Sprintf("%+v", fxG.State())})
	}
	k.Sample(map[string]interface{}{"rule": kept[0].text, "what": kept[0].desc})
}

func endsWithReturn(b []gen.Stmt) bool {
	if len(b) == 0 {
		return false
	}
	_, ok := b[len(b)-1].(*gen.Return)
	return ok
}

func ruleIndex(ru *hostRule) int64 {
	var i int64
	fmt.Sscanf(ru.meta.Name, "h%d", &i)
	return i
}

// RunC03Matrix runs cellsPerCase cells x up to 5 values.
func RunC03Matrix(k *fw.Case, caseIdx int) {
	var rules []*hostRule
	extra := map[string]interface{}{"k8": int8(5), "ku16": uint16(9)}
	j := 0
	for c := caseIdx * cellsPerCase; c < (caseIdx+1)*cellsPerCase && c < len(matrixCells); c++ {
		cell := matrixCells[c]
		for _, v := range candidates(cell.s.typ, cell.t.typ, cell.t.cross, 5) {
			j++
			src, inj := cell.s.mk(j, v)
			for n, x := range inj {
				extra[n] = x
			}
			ru := &hostRule{meta: gen.RuleMeta{Name: fmt.Sprintf("h%d", j)}, key: "matrix/" + cell.s.name + "->" + strings.Fields(cell.t.name)[0] + "-" + cell.t.typ.Kind().String(),
				desc: fmt.Sprintf("%s %s into %s (%s)", cell.s.name, gen.Show(v), cell.t.name, cell.t.typ.Kind())}
			ru.body = cell.t.stmts(int64(j)*1000+1, src)
			rules = append(rules, ru)
			k.Distinct("matrix", cell.s.name, cell.t.name, gen.Show(v))
			k.Count("matrix_cells_values", 1)
		}
	}
	runHostRules(k, 4242+int64(caseIdx), rules, extra, "C03")
}

// ---- C03 (b): random host-access programs ----

var writableTargets = targets()

// RunC03Random builds ~14 small rules from templates: typed reads, stores with random
// sources, compound updates, calls with mixed parameters, shadowing attempts.
func RunC03Random(k *fw.Case) {
	r := k.Rng
	g := &gen.G{R: r, Locals: map[string]interface{}{}, NoAt: true}
	var rules []*hostRule
	extra := map[string]interface{}{"k8": int8(5), "ku16": uint16(9), "uzero": uint8(0)}
	srcs := sources()
	n := 14
	for j := 1; j <= n; j++ {
		id := int64(j) * 1000
		ru := &hostRule{meta: gen.RuleMeta{Name: fmt.Sprintf("h%d", j)}}
		switch r.Intn(10) {
		case 9: // an element struct in a local (fields, value-receiver method), a pointer-receiver method through a pointer field
			ru.key, ru.desc = "call/struct-shapes", "struct element held in a local; pointer-receiver method through a pointer field"
			kx := int64(r.Intn(2))
			ru.body = []gen.Stmt{
				&gen.Assign{Target: "sx", Op: "=", E: &gen.Elem{Cont: "H.IS", KeyInt: &kx}},
				tvS(id+1, &gen.Ref{Name: "sx.X"}), tvS(id+2, &gen.Ref{Name: "sx.S"}),
				tvS(id+3, &gen.CallE{Name: "sx.Sum", Args: []gen.Expr{il(int64(r.Intn(9))), smallNum(r, g, tU16)}}),
				tvS(id+4, &gen.CallE{Name: "H.Pn.Bump", Args: []gen.Expr{smallNum(r, g, tI8)}}),
				tvS(id+5, &gen.Ref{Name: "H.Pn.X"}),
				// stores through a LOCAL that holds the injected object, one and two levels deep
				&gen.Assign{Target: "lh", Op: "=", E: &gen.Ref{Name: "H"}},
				&gen.Assign{Target: "lh.I16", Op: "=", E: il(int64(r.Intn(300)))},
				&gen.Assign{Target: []string{"lh.In.X", "lh.Pn.X", "lh.In.W"}[r.Intn(3)], Op: "=", E: il(int64(r.Intn(100)))},
				tvS(id+6, &gen.Ref{Name: "H.I16"}), tvS(id+7, &gen.Ref{Name: "H.In.X"}), tvS(id+8, &gen.Ref{Name: "lh.Pn.X"}),
				// the host re-points a pointer field while the rule runs: later reads go through the new pointer
				tvS(id+9, &gen.Ref{Name: "H.Pn.X"}),
				tvS(id+10, &gen.CallE{Name: "H.Repoint"}),
				tvS(id+11, &gen.Ref{Name: "H.Pn.X"}), tvS(id+12, &gen.Ref{Name: "H.Pn.S"}),
				&gen.Assign{Target: "H.Pn.W", Op: "=", E: il(int64(r.Intn(100)))},
				tvS(id+13, &gen.Ref{Name: "H.Pn.W"}),
				// V is injected BY VALUE, but its field Pn is a pointer: a store through it reaches the host's object
				&gen.Assign{Target: "V.Pn.X", Op: "=", E: il(int64(r.Intn(1000)))},
				tvS(id+14, &gen.Ref{Name: "V.Pn.X"}),
			}
		case 0: // typed reads of injected data, incl. missing map keys
			ru.key, ru.desc = "read", "typed reads of injected values"
			for q := 0; q < 3; q++ {
				var e gen.Expr
				switch r.Intn(3) {
				case 0:
					e = g.NumLeaf()
				case 1:
					e = g.StrLeaf()
				default:
					e = g.BoolLeaf()
				}
				if _, isLit := e.(*gen.Lit); isLit {
					e = &gen.Elem{Cont: "M64", KeyStr: sp("not-there")}
				}
				ru.body = append(ru.body, tvS(id+int64(q)+1, e))
			}
		case 1, 2: // store with a random source/target/value
			s := srcs[r.Intn(len(srcs))]
			t := writableTargets[r.Intn(len(writableTargets))]
			cands := candidates(s.typ, t.typ, t.cross, 9)
			if len(cands) == 0 {
				j--
				continue
			}
			v := cands[r.Intn(len(cands))]
			src, inj := s.mk(j, v)
			for nme, x := range inj {
				extra[nme] = x
			}
			ru.key = "store/" + s.name + "->" + strings.Fields(t.name)[0] + "-" + t.typ.Kind().String()
			ru.desc = fmt.Sprintf("%s %s into %s (%s)", s.name, gen.Show(v), t.name, t.typ.Kind())
			ru.body = t.stmts(id+1, src)
		case 3: // compound update of a host target
			type cu struct {
				t  string
				el *gen.Elem
			}
			opts := []cu{{t: "H.I64"}, {t: "H.I16"}, {t: "H.F64"}, {t: "H.In.X"}, {t: "H.Pn.Z"}, {t: "H.EI"}, {t: "H.Pn.DX"}, {el: &gen.Elem{Cont: "M64", KeyStr: sp("zz")}}, {el: &gen.Elem{Cont: "PS", KeyInt: ip(2)}},
				{el: &gen.Elem{Cont: "MF", KeyStr: sp("b")}}, {el: &gen.Elem{Cont: "H.MS", KeyStr: sp("k3")}}, {el: &gen.Elem{Cont: "VS", KeyInt: ip(1)}}, {t: "H.S"}}
			o := opts[r.Intn(len(opts))]
			op := []string{"+=", "-=", "*=", "/="}[r.Intn(4)]
			var e gen.Expr = il(int64(1 + r.Intn(4)))
			a := &gen.Assign{Target: o.t, Elem: o.el, Op: op, E: e}
			var rb gen.Expr
			if o.el != nil {
				rb = o.el
			} else {
				rb = &gen.Ref{Name: o.t}
			}
			if o.t == "H.S" {
				a.Op, a.E = "+=", &gen.Lit{V: "+x", Text: "\"+x\""}
			}
			// first put a small known value so that the update stays representable
			var init gen.Stmt
			if o.t != "H.S" {
				init = &gen.Assign{Target: o.t, Elem: o.el, Op: "=", E: il(int64(6 + r.Intn(20)))}
				if o.t == "H.F64" || o.t == "H.Pn.Z" || (o.el != nil && o.el.Cont == "MF") {
					init = &gen.Assign{Target: o.t, Elem: o.el, Op: "=", E: &gen.Lit{V: 6.5, Text: "6.5"}}
					a.E = &gen.Lit{V: 2.0, Text: "2.0"}
				}
				ru.body = append(ru.body, init)
			}
			ru.key, ru.desc = "compound/"+op, "compound update "+op+" of "+(&gen.Printer{}).Expr(rb)
			ru.body = append(ru.body, a, tvS(id+1, rb))
		case 4: // function call with mixed parameters, result used
			ru.key, ru.desc = "call/function", "function call with mixed int/uint/float/string/bool parameters"
			c := randCall(r, g, id+1)
			ru.body = []gen.Stmt{&gen.Assign{Target: "res", Op: "=", E: c}, tvS(id+2, &gen.Ref{Name: "res"})}
		case 5: // method and three-level calls
			ru.key, ru.desc = "call/method", "method / three-level call"
			switch r.Intn(4) {
			case 0:
				ru.body = []gen.Stmt{tvS(id+2, &gen.CallE{Name: "H.Rec3", Args: []gen.Expr{il(id + 1), smallNum(r, g, tI8), smallNum(r, g, tU32), smallNum(r, g, tF32)}})}
			case 1:
				ru.body = []gen.Stmt{tvS(id+2, &gen.CallE{Name: "H.RecS", Args: []gen.Expr{il(id + 1), g.StrLeaf(), g.BoolLeaf()}})}
			case 2:
				ru.body = []gen.Stmt{tvS(id+2, &gen.CallE{Name: "H.Pn.Sum", Args: []gen.Expr{smallNum(r, g, tI64), smallNum(r, g, tU16)}})}
			default:
				ru.body = []gen.Stmt{tvS(id+2, &gen.CallE{Name: "H.GetI64"}), tvS(id+3, &gen.CallE{Name: "H.In.Sum", Args: []gen.Expr{il(1), il(2)}})}
			}
		case 6: // a local with the name of an injected object: the injected object stays in charge
			ru.key, ru.desc = "shadow", "assignment to the name of a value-injected object must fail and leave it in charge"
			nme := []string{"NI8", "NU64", "NS", "V", "M64", "H", "VS", "NF64"}[r.Intn(8)]
			ru.body = []gen.Stmt{&gen.Assign{Target: nme, Op: []string{"=", ":="}[r.Intn(2)], E: il(5)}}
		case 7: // reads after possible shadow attempts
			ru.key, ru.desc = "read-after-shadow", "injected names still yield the injected values"
			ru.body = []gen.Stmt{tvS(id+1, &gen.Ref{Name: "NI8"}), tvS(id+2, &gen.Ref{Name: "NU64"}), tvS(id+3, &gen.Ref{Name: "NS"}), tvS(id+4, &gen.Ref{Name: "H.I8"}), tvS(id+5, &gen.Elem{Cont: "M64", KeyStr: sp("a")}), tvS(id+6, &gen.Elem{Cont: "VS", KeyInt: ip(1)}), tvS(id+7, &gen.Ref{Name: "NF64"})}
		default: // string / bool stores
			ru.key, ru.desc = "store/string-bool", "string and bool stores"
			ru.body = []gen.Stmt{
				&gen.Assign{Target: []string{"H.S", "H.In.S", "H.Pn.S", "PStr", "H.Nm"}[r.Intn(5)], Op: "=", E: g.StrLeaf()},
				&gen.Assign{Target: []string{"H.B", "H.In.B", "PB", "H.Fl"}[r.Intn(4)], Op: "=", E: g.BoolLeaf()},
				&gen.Assign{Elem: &gen.Elem{Cont: "VSS", KeyInt: ip(int64(r.Intn(3)))}, Op: "=", E: g.StrLeaf()},
				&gen.Assign{Elem: &gen.Elem{Cont: "H.MI", KeyInt: ip(int64(r.Intn(5) - 2))}, Op: "=", E: g.StrLeaf()},
				tvS(id+1, &gen.Ref{Name: "H.S"}), tvS(id+2, &gen.Ref{Name: "H.In.S"}), tvS(id+3, &gen.Ref{Name: "H.B"}), tvS(id+4, &gen.Elem{Cont: "VSS", KeyInt: ip(1)}), tvS(id+5, &gen.Ref{Name: "H.Nm"}), tvS(id+6, &gen.Ref{Name: "H.Fl"}),
			}
		}
		k.Distinct("random", ru.key, ru.desc)
		k.Count("tmpl_"+strings.Split(ru.key, "/")[0], 1)
		rules = append(rules, ru)
	}
	runHostRules(k, r.Int63(), rules, extra, "C03")
}

// smallNum gives an argument expression whose value is representable in t.
func smallNum(r interface{ Intn(int) int }, g *gen.G, t reflect.Type) gen.Expr {
	switch r.Intn(4) {
	case 0:
		return il(int64(r.Intn(100)))
	case 1:
		if t.Kind() == reflect.Float32 || t.Kind() == reflect.Float64 {
			return &gen.Lit{V: 2.5, Text: "2.5"}
		}
		return il(int64(r.Intn(120)))
	case 2:
		return &gen.Bin{Op: "+", L: il(int64(r.Intn(50))), R: &gen.Ref{Name: "uzero"}}
	default:
		return &gen.Ref{Name: []string{"NU8", "H.U8", "H.AR[1]"}[r.Intn(2)]}
	}
}

func randCall(r interface{ Intn(int) int }, g *gen.G, id int64) *gen.CallE {
	switch r.Intn(7) {
	case 0:
		return &gen.CallE{Name: "ti", Args: []gen.Expr{il(id), smallNum(r, g, tI8), smallNum(r, g, tU16), g.NumLeafInt(), smallNum(r, g, tU64)}}
	case 1:
		return &gen.CallE{Name: "tf", Args: []gen.Expr{il(id), smallNum(r, g, tF32), g.NumLeaf()}}
	case 2:
		return &gen.CallE{Name: "ts", Args: []gen.Expr{il(id), g.StrLeaf(), g.BoolLeaf()}}
	case 3:
		return &gen.CallE{Name: "tu", Args: []gen.Expr{il(id), smallNum(r, g, tU8), smallNum(r, g, tU32), smallNum(r, g, tI), smallNum(r, g, tU)}}
	case 4:
		// a callee with several results: the call yields the first one
		return &gen.CallE{Name: "pr2", Args: []gen.Expr{il(id), g.NumLeafInt()}}
	case 5:
		// variadic callees with nothing, one thing or several things for the tail
		switch r.Intn(3) {
		case 0:
			args := []gen.Expr{il(id), smallNum(r, g, tI)}
			for n := r.Intn(3); n > 0; n-- {
				// the tail gets values of exactly its element type (whether tail elements are converted is not promised)
				args = append(args, il(int64(r.Intn(1000))))
			}
			return &gen.CallE{Name: "tvar", Args: args}
		case 1:
			args := []gen.Expr{il(id), smallNum(r, g, tU8)}
			for n := r.Intn(3); n > 0; n-- {
				args = append(args, g.StrLeaf())
			}
			return &gen.CallE{Name: "tvs", Args: args}
		}
		args := []gen.Expr{il(id), smallNum(r, g, tF32)}
		for n := r.Intn(3); n > 0; n-- {
			args = append(args, &gen.Lit{V: 2.5, Text: "2.5"})
		}
		return &gen.CallE{Name: "tvf", Args: args}
	default:
		// nested call and expression arguments
		return &gen.CallE{Name: "ti", Args: []gen.Expr{il(id), il(3), &gen.Bin{Op: "+", L: il(1), R: il(1)}, &gen.CallE{Name: "idn", Args: []gen.Expr{g.NumLeafInt()}}, il(4)}}
	}
}

// RunC03 dispatches: the first MatrixCases() case indices enumerate the matrix completely
// (in both tiers), the rest are random programs.
func RunC03(k *fw.Case) {
	if k.Index < MatrixCases() {
		RunC03Matrix(k, k.Index)
		return
	}
	if k.Index%5 == 0 {
		RunC03Reinject(k)
		return
	}
	RunC03Random(k)
}

// ---- C03 (c): a name always refers to the object that is injected NOW ----

type reBox struct{ V int64 }

func (b *reBox) Get() int64 { return b.V }

type reHolder struct{ In *reBox }

// reBox2 / reHolder2: another type with the same field and a method Get that sits at ANOTHER position of the
// method set (methods are sorted by name: Aaa, Get, Zzz) - injected over reBox without removing it first
type reBox2 struct{ V int64 }

func (b *reBox2) Aaa() int64 { return -1 }
func (b *reBox2) Get() int64 { return b.V }
func (b *reBox2) Zzz() int64 { return -2 }

type reHolder2 struct{ In *reBox2 }

func mkTwinA(v int64) interface{} {
	type twin struct{ A, B int64 }
	return &twin{A: v, B: v + 1}
}

func mkTwinB(v int64) interface{} {
	type twin struct {
		Pad  string
		B, A int64
	}
	return &twin{B: v + 1, A: v}
}

// RunC03Reinject: inject, call/read, remove, call/read (must fail), inject another object
// under the same name (with and without removing the old one first).
func RunC03Reinject(k *fw.Case) {
	r := k.Rng
	dc := context.NewDataContext()
	rb := builder.NewRuleBuilder(dc)
	text := `
rule "m" salience 4 begin return Obj.Get() end
rule "f" salience 3 begin return Obj.V end
rule "fn" salience 2 begin return getv() end
rule "t" salience 1 begin return Holder.In.Get() end
rule "w" salience 0 begin Obj.V = Obj.V + 1000 return Obj.V end
rule "pw" salience -1 begin Cnt = 5 Cnt2 := 6 end
rule "tw" salience -4 begin Twin.A = Twin.A + 100 return Twin.B end
rule "mid" salience -2 begin Late = 7 injlate() return Late end
rule "midarg" salience -3 begin Late2 = 7 seen = reidn(Late2) injlate2() return reidn(Late2) + seen end
`
	// the name of a local gets injected WHILE the rule runs (by a host function the rule calls): from then on
	// the name refers to the injected object, also in the rest of that execution
	dc.Add("injlate", func() { dc.Add("Late", int64(500)) })
	dc.Add("injlate2", func() { dc.Add("Late2", int64(600)) })
	dc.Add("reidn", func(v int64) int64 { return v })
	if err := trace.CompileLocked(func() error { return rb.BuildRuleFromString(text) }); err != nil {
		k.Inconclusive("reinjection text does not compile: " + err.Error())
		return
	}
	eng := engine.NewGengine()
	step := 0
	check := func(label string, want map[string]int64) {
		step++
		var pan interface{}
		dc.Del("Late", "Late2")
		want["mid"], want["midarg"] = 500, 607
		func() {
			defer func() { pan = recover() }()
			eng.Execute(rb, true)
		}()
		res, _ := eng.GetRulesResultMap()
		k.Eval(1)
		k.Count("reinjection_steps", 1)
		if pan != nil {
			k.Violate("reinject/panic", fmt.Sprintf("step %d (%s): Execute panicked: %v", step, label, pan), nil)
			return
		}
		for name, w := range want {
			got, ok := res[name]
			if !ok || got != interface{}(w) {
				k.Violate("reinject/"+label, fmt.Sprintf("step %d (%s): rule %q returned %v (present=%v), the object injected now gives %d", step, label, name, got, ok, w), map[string]interface{}{"rule_text": text, "result": fmt.Sprint(res)})
				return
			}
		}
		for name, got := range res {
			if _, ok := want[name]; !ok {
				k.Violate("reinject/"+label, fmt.Sprintf("step %d (%s): rule %q returned %v although the name it uses is not injected any more", step, label, name, got), map[string]interface{}{"rule_text": text, "result": fmt.Sprint(res)})
				return
			}
		}
		k.Distinct("reinject", label, len(want))
	}
	base := int64(1 + r.Intn(50))
	inject := func(v int64) {
		dc.Add("Obj", &reBox{V: v})
		vv := v * 10
		dc.Add("getv", func() int64 { return vv })
		dc.Add("Holder", &reHolder{In: &reBox{V: v * 100}})
	}
	inject(base)
	check("first-injection", map[string]int64{"m": base, "f": base, "fn": base * 10, "t": base * 100, "w": base + 1000})
	dc.Del("Obj", "getv", "Holder")
	check("after-removal", map[string]int64{})
	inject(base + 1)
	check("other-object-after-removal", map[string]int64{"m": base + 1, "f": base + 1, "fn": (base + 1) * 10, "t": (base + 1) * 100, "w": base + 1001})
	inject(base + 2) // overwrite without removing first
	check("overwritten", map[string]int64{"m": base + 2, "f": base + 2, "fn": (base + 2) * 10, "t": (base + 2) * 100, "w": base + 1002})
	// ... and by an object of another type whose method of that name has another index in its method set
	dc.Add("Obj", &reBox2{V: base + 3})
	dc.Add("Holder", &reHolder2{In: &reBox2{V: (base + 3) * 100}})
	check("overwritten-by-another-type", map[string]int64{"m": base + 3, "f": base + 3, "fn": (base + 2) * 10, "t": (base + 3) * 100, "w": base + 1003})
	inject(base + 2)
	check("overwritten-back", map[string]int64{"m": base + 2, "f": base + 2, "fn": (base + 2) * 10, "t": (base + 2) * 100, "w": base + 1002})
	dc.Del("Obj")
	check("partly-removed", map[string]int64{"fn": (base + 2) * 10, "t": (base + 2) * 100})
	// a plain name that was a rule local in the earlier calls is now injected as a pointer: the
	// assignment must store through it (the injected object is in charge), and stop doing so once
	// it is removed again
	cnt, cnt2 := new(int64), new(int32)
	dc.Add("Cnt", cnt)
	dc.Add("Cnt2", cnt2)
	check("local-name-now-injected", map[string]int64{"fn": (base + 2) * 10, "t": (base + 2) * 100})
	if *cnt != 5 || *cnt2 != 6 {
		k.Violate("reinject/local-name-now-injected", fmt.Sprintf("`Cnt = 5  Cnt2 := 6` ran with Cnt, Cnt2 injected as pointers (they were rule locals in the earlier calls): the host sees %d, %d", *cnt, *cnt2), map[string]interface{}{"rule_text": text})
	}
	// two DIFFERENT struct types with the same name and another field layout, injected one after the other
	// under one name: fields are found by name in the object that is injected now
	for step, tw := range []interface{}{mkTwinA(base), mkTwinB(base + 5), mkTwinA(base + 9)} {
		dc.Add("Twin", tw)
		v := base + int64([]int{0, 5, 9}[step])
		check(fmt.Sprintf("same-type-name-other-layout-%d", step), map[string]int64{"fn": (base + 2) * 10, "t": (base + 2) * 100, "tw": v + 1})
		tv := reflect.ValueOf(tw).Elem()
		if a, b := tv.FieldByName("A").Int(), tv.FieldByName("B").Int(); a != v+100 || b != v+1 {
			k.Violate("reinject/same-type-name-other-layout", fmt.Sprintf("`Twin.A = Twin.A + 100` on an object of type %s with A=%d B=%d: the host sees A=%d B=%d", tv.Type(), v, v+1, a, b), map[string]interface{}{"rule_text": text})
		}
	}
	dc.Del("Twin")
	*cnt, *cnt2 = 0, 0
	dc.Del("Cnt", "Cnt2")
	check("injected-name-local-again", map[string]int64{"fn": (base + 2) * 10, "t": (base + 2) * 100})
	if *cnt != 0 || *cnt2 != 0 {
		k.Violate("reinject/injected-name-local-again", fmt.Sprintf("after Cnt / Cnt2 were removed the rule still stored through the old pointers: %d, %d", *cnt, *cnt2), map[string]interface{}{"rule_text": text})
	}
}
