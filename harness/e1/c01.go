// Package e1 holds the monitors built on engine E1 (generator + reference interpreter).
package e1

import (
	"fmt"
	"math/rand"
	"regexp"
	"strings"

	"github.com/bilibili/gengine/builder"
	"github.com/bilibili/gengine/context"
	"github.com/bilibili/gengine/engine"
	"verifharness/fw"
	"verifharness/gen"
	"verifharness/trace"
)

// compile builds a rule builder over the fixture's table.
func compile(fx *gen.Fixture, text string) (*builder.RuleBuilder, error) {
	dc := context.NewDataContext()
	for k, v := range fx.Table() {
		dc.Add(k, v)
	}
	rb := builder.NewRuleBuilder(dc)
	err := trace.CompileLocked(func() error { return rb.BuildRuleFromString(text) })
	return rb, err
}

// execSort runs the sort model with continue-on-error and converts a panic into a value.
func execSort(rb *builder.RuleBuilder) (res map[string]interface{}, err error, pan interface{}) {
	eng := engine.NewGengine()
	func() {
		defer func() { pan = recover() }()
		err = eng.Execute(rb, true)
	}()
	res, _ = eng.GetRulesResultMap()
	return
}

type exprRule struct {
	meta   gen.RuleMeta
	pre    []*gen.Assign
	expr   gen.Expr
	want   interface{}
	fault  bool
	text   string
	illGen bool
}

var nameKinds = []func(i int) string{
	func(i int) string { return fmt.Sprintf("e%d", i) },
	func(i int) string { return fmt.Sprintf("%d", 1000+i) },
	func(i int) string { return fmt.Sprintf("-%d", 1+i) },
	func(i int) string { return fmt.Sprintf("00%d", i) },
	func(i int) string { return fmt.Sprintf("%da", i) },
	func(i int) string { return fmt.Sprintf("+%d", 50+i) },
	func(i int) string { return fmt.Sprintf("9223372036854775807%d", i) },                // beyond int64: not a decimal int64
	func(i int) string { return fmt.Sprintf("%d", int64(2147483648)+int64(i)) },          // beyond int32
	func(i int) string { return fmt.Sprintf("-%d", int64(4294967296)+int64(i)) },         // below -2^32
	func(i int) string { return fmt.Sprintf("%d", int64(9223372036854775807)-int64(i)) }, // top of int64
	func(i int) string { return fmt.Sprintf("2026092700%d", i) },                         // date-like id
	// blanks are part of a name (non-numeric, so @id is 0 whether or not an implementation trims first)
	func(i int) string { return fmt.Sprintf(" e%d ", i) },
	func(i int) string { return fmt.Sprintf("t%d  ", i) },
	func(i int) string { return fmt.Sprintf("  s %d", i) },
	func(i int) string { return fmt.Sprintf("e%d", i) },
	func(i int) string { return fmt.Sprintf("e%d", i) },
}

func genMeta(r *rand.Rand, i int) gen.RuleMeta {
	m := gen.RuleMeta{Name: nameKinds[r.Intn(len(nameKinds))](i)}
	if r.Intn(2) == 0 {
		m.HasDesc = true
		m.Desc = []string{"d", "some description", "42", "x y z"}[r.Intn(4)] + fmt.Sprint(i)
	}
	if r.Intn(2) == 0 {
		m.HasSal = true
		m.Sal = []int64{0, 1, -1, 5, -7, 100, 9223372036854775807, -9223372036854775808, 1000000007}[r.Intn(9)]
	}
	return m
}

// RunC01: one compiled text of nRules single-expression rules.
func RunC01(k *fw.Case) {
	r := k.Rng
	nRules := 40
	depth := 2 + r.Intn(4) // 2..5 (+1 from top-level choices => up to 6)
	seed := r.Int63()
	fxG, fxR := gen.NewFixture(seed), gen.NewFixture(seed)
	p := &gen.Printer{R: r}
	var rules []*exprRule
	var text strings.Builder
	for i := 0; len(rules) < nRules && i < nRules*4; i++ {
		ru := &exprRule{meta: genMeta(r, len(rules))}
		env := gen.NewEnv(fxR.Table(), ru.meta)
		g := &gen.G{R: r, Locals: env.Locals}
		// a few locals first
		nl := r.Intn(4)
		ok := true
		for j := 0; j < nl; j++ {
			var e gen.Expr
			switch r.Intn(4) {
			case 0:
				e = g.StrLeaf()
			case 1:
				e = g.BoolLeaf()
			default:
				e = g.NumLeaf()
			}
			a := &gen.Assign{Target: fmt.Sprintf("lv%d", j), Op: []string{"=", ":="}[r.Intn(2)], E: e}
			if _, _, err := env.Run([]gen.Stmt{a}); err != nil {
				ok = false
				break
			}
			ru.pre = append(ru.pre, a)
		}
		if !ok {
			continue
		}
		if r.Intn(8) == 0 {
			ru.expr = g.IllTyped(depth)
			ru.illGen = true
		} else {
			switch r.Intn(10) {
			case 0, 1, 2, 3, 4:
				ru.expr = g.Num(depth)
			case 5, 6, 7, 8:
				ru.expr = g.Bool(depth)
			default:
				ru.expr = g.Str(depth - 1)
			}
		}
		if gen.Leaves(ru.expr) > 24 {
			continue
		}
		v, err := env.Eval(ru.expr)
		if err == gen.ErrUndefined {
			continue
		}
		if err != nil {
			ru.fault = true
		} else {
			ru.want = v
		}
		var b strings.Builder
		b.WriteString(ru.meta.Header() + "\nbegin\n")
		for _, a := range ru.pre {
			b.WriteString("  " + p.Stmt(a, 1) + "\n")
		}
		// the same expression in different syntactic positions: return, assignment right-hand
		// side, call argument, if condition
		et := p.Expr(ru.expr)
		_, isBool := ru.want.(bool)
		switch c := r.Intn(8); {
		case c == 0:
			b.WriteString("  carried = " + et + "\n  return carried\nend\n")
		case c == 1:
			b.WriteString("  return pass(" + et + ")\nend\n")
		case c == 2 && isBool && !ru.fault:
			b.WriteString("  if " + et + " {\n    return 1\n  } else {\n    return 0\n  }\nend\n")
			if ru.want.(bool) {
				ru.want = int64(1)
			} else {
				ru.want = int64(0)
			}
		case c == 3 && isBool && !ru.fault:
			b.WriteString("  cnt = 0\n  for go1 = true; go1 && (" + et + "); go1 = false {\n    cnt += 1\n  }\n  return cnt\nend\n")
			if ru.want.(bool) {
				ru.want = int64(1)
			} else {
				ru.want = int64(0)
			}
		default:
			b.WriteString("  return " + et + "\nend\n")
		}
		ru.text = b.String()
		text.WriteString(ru.text)
		rules = append(rules, ru)
	}
	// a rule WITHOUT description placed after one WITH (stale header state) is produced by the random metas.
	before := fxG.State()
	rb, err := compile(fxG, text.String())
	if err != nil {
		noCompile(k, "expression", err, text.String())
		return
	}
	res, eerr, pan := execSort(rb)
	k.Eval(len(rules))
	callPan := pan
	if pan != nil {
		// which rule? re-run one by one below
		k.Count("calls_that_panicked", 1)
	}
	anyFault := false
	for _, ru := range rules {
		if ru.fault {
			anyFault = true
		}
	}
	if pan == nil {
		if anyFault && eerr == nil {
			k.Violate("error-nil", "a rule's expression must fail but Execute returned a nil error", map[string]interface{}{"text": text.String()})
		}
		if !anyFault && eerr != nil {
			k.Count("unexpected_call_error", 1)
		}
	}
	for _, ru := range rules {
		got, present := res[ru.meta.Name]
		sh := gen.Shape(ru.expr)
		if callPan != nil {
			// evaluate this rule alone to attribute the panic
			var pan interface{}
			got, present, pan = runAlone(fxG, ru)
			if pan != nil {
				if ru.fault {
					// an ill-typed expression that escapes as a panic instead of an error: C01 says "fails with an error"
					k.Violate("fault-panics/"+illKind(ru.expr), "ill-typed expression panicked into the caller instead of failing with an error: "+p0(ru.expr), detail(ru, nil, false, pan))
				} else {
					k.Violate("value-panics", "well-typed expression panicked: "+p0(ru.expr), detail(ru, nil, false, pan))
				}
				continue
			}
		}
		switch {
		case ru.fault && present:
			k.Violate("fault-yields-value/"+illKind(ru.expr), fmt.Sprintf("expression must fail (ill-typed or division by zero) but yielded %s: %s", gen.Show(got), p0(ru.expr)), detail(ru, got, present, nil))
		case !ru.fault && !present:
			k.Violate("value-missing/"+topOp(ru.expr), fmt.Sprintf("well-typed expression produced no value (expected %s): %s", gen.Show(ru.want), p0(ru.expr)), detail(ru, got, present, nil))
		case !ru.fault && !gen.SameValue(got, ru.want):
			k.Violate("value-differs/"+diffKind(ru.expr, ru.want, got), fmt.Sprintf("expected %s, got %s: %s", gen.Show(ru.want), gen.Show(got), p0(ru.expr)), detail(ru, got, present, nil))
		}
		if gen.Leaves(ru.expr) >= 2 {
			k.Distinct(sh, ru.fault)
		}
		if ru.fault {
			k.Count("expressions_expected_to_fail", 1)
		} else {
			k.Count("expressions_with_value", 1)
		}
	}
	if d := gen.DiffState(before, fxG.State()); len(d) > 0 {
		k.Violate("pure-expression-changed-host", fmt.Sprintf("evaluating pure expressions changed injected data: %v", d), map[string]interface{}{"text": text.String()})
	}
	if len(rules) > 0 {
		ru := rules[0]
		k.Sample(map[string]interface{}{"rule": ru.text, "expected": gen.Show(ru.want), "expected_fault": ru.fault})
	}
}

func p0(e gen.Expr) string { return (&gen.Printer{}).Expr(e) }

// noCompile: the generators print only texts of the language (typed trees through one printer; more than
// 10^6 of them compiled on the pinned tree), so a text the builder rejects is a program whose expressions /
// statements get no value at all - a violation of the property under test, not a missing observation.
func noCompile(k *fw.Case, what string, err error, text string) {
	msg := err.Error()
	class := regexp.MustCompile(`[0-9]+`).ReplaceAllString(msg, "N")
	if i := strings.Index(class, ":"); i > 0 && i < 80 {
		class = class[i:]
	}
	k.Violate("no-compile/"+what, "a generated "+what+" text of the language is rejected by the builder: "+trunc(msg, 300),
		map[string]interface{}{"text": text, "error": msg, "class": trunc(class, 60)})
}

func trunc(s string, n int) string {
	if len(s) > n {
		return s[:n] + "…"
	}
	return s
}

func detail(ru *exprRule, got interface{}, present bool, pan interface{}) map[string]interface{} {
	d := map[string]interface{}{"rule_text": ru.text, "canonical": p0(ru.expr), "expected": gen.Show(ru.want), "expected_fault": ru.fault,
		"got": gen.Show(got), "result_entry_present": present}
	if pan != nil {
		d["panic"] = trunc(fmt.Sprint(pan), 400)
	}
	return d
}

func runAlone(fx *gen.Fixture, ru *exprRule) (got interface{}, present bool, pan interface{}) {
	rb, err := compile(fx, ru.text)
	if err != nil {
		return nil, false, nil
	}
	res, _, pan := execSort(rb)
	got, present = res[ru.meta.Name]
	return got, present, pan
}

func topOp(e gen.Expr) string {
	switch x := e.(type) {
	case *gen.Bin:
		return "op" + x.Op
	case *gen.Paren:
		return topOp(x.X)
	case *gen.Not:
		return "not"
	case *gen.At:
		return "at-" + x.Which
	}
	return "leaf"
}

func illKind(e gen.Expr) string {
	switch x := e.(type) {
	case *gen.Paren:
		return illKind(x.X)
	case *gen.Not:
		return "not"
	case *gen.Bin:
		switch x.Op {
		case "/":
			return "div"
		case "+", "-", "*":
			return "arith"
		case "&&", "||":
			return "logic"
		}
		return "cmp"
	}
	return "other"
}

// diffKind gives a stable coarse key for a value difference.
func diffKind(e gen.Expr, want, got interface{}) string {
	if fmt.Sprintf("%T", want) != fmt.Sprintf("%T", got) {
		return fmt.Sprintf("type-%T-vs-%T", want, got)
	}
	return topOp(e)
}
