package specs

import "verifharness/fw"

func init() {
	fw.Reg(&fw.Spec{ID: "C08", Level: "exploration", Quick: 320, Thorough: 60000,
		Rule: "one case = one sequential history of 12 operations (thorough: 8-20) on ONE RuleBuilder, drawn from: full build (1-6 rules), incremental build (1-4 rules per call: new names, installed names with equal salience, installed names with changed salience - to a tie, just outside the installed range, a neighbour value or anything - in any mixture), RemoveRules (present names, absent and never-built names, mixtures, all names), and operations that must fail and change nothing (texts with a syntax error, the same rule name twice in one text, blank texts - for both build entry points - and RemoveRules(nil/[])); 8 names (digit-only, with a space, differing only in case, non-ASCII, spelling a keyword), saliences in [-3,3] with frequent ties plus +-1000000007 and the int64 extremes, rules without a salience clause, with/without description, keyword case varied. Every rule version has a unique number V, its body is tr(V) return V. After EVERY operation the sort model is executed and the tr() sequence, the result map, IsExist over all names plus two never-built ones, the nil-ness of the returned error and the stored name/salience/description are compared with a Go map that denotes the history; ties may run in any order. distinct = sequence of operation kinds, per operation the relations (new/equal/changed) of its rules to the installed set, and the resulting set size; non-trivial = every history (each runs at least one build or removal and one execution)",
		Assumptions: []string{
			"rule bodies are observed through the injected function tr (client boundary); order verdicts use the position in the tr() sequence only",
			"descriptions and stored saliences are read through the exported field RuleBuilder.Kc (there is no accessor)",
			"distinct strings are distinct rule names (case-sensitive, no trimming)",
			"texts that compile to zero rules without being blank (comments only) and names repeated inside one removal list are not generated (undefined by the property)",
			"after a violation the rest of the history is not evaluated (model and implementation have diverged)",
		},
		MinCounters: map[string]int64{"rules_executed": 1000}})
}
