package specs

import "verifharness/fw"

func init() {
	fw.Reg(&fw.Spec{ID: "C10", Level: "exploration", Quick: 3000, Thorough: 60000, CaseTimeoutS: 60,
		HangIsViolation: true, CrashIsViolation: true,
		Rule: "one text (<= 2 KB) per case, submitted to all five compile entry points (BuildRuleFromString, BuildRuleWithIncremental, NewGenginePool, UpdatePooledRules, UpdatePooledRulesIncremental), each starting from a fresh builder/pool pre-loaded with a known runnable set of 3 rules (distinct saliences, bodies tr(version); return version); texts: 50 % token-level mutants of generated valid texts (delete/duplicate/swap/replace/insert tokens, keywords, brackets, operators, garbage, truncation, splicing), 10 % valid texts with one rule name defined twice (adjacent, separated, different body), 20 % valid texts (half runnable model rules, half rich compile-only rules using if/else-if/else, for, forRange, conc, all assignment operators, calls, method calls, map/slice access, @-constants, returns, comments, negative and real literals; some redefine rules of the known set), 20 % raw bytes (empty, blank, comment-only, random bytes with NUL and invalid UTF-8, characters the lexer does not know); the installed set is observed before and after through sort-model executions (trace of versions, result map), IsExist, number of rules and saliences; distinct by (class, accepted by all?, number of accepting entry points, sequence of token classes of the text); non-trivial = non-blank text",
		Assumptions: []string{
			"the installed rule set is observed through the injected function tr(version), the result map, IsExist, GetRulesNumber/GetRuleSalience (client boundary); error texts are never inspected",
			"all compiles of a worker run on one goroutine (the ANTLR runtime has unsynchronised global caches)",
			"for accepted texts whose rule names are not known to the generator (mutants, raw bytes) a known rule counts as 'not defined by the text' only when its name does not occur anywhere in the text",
			"accepted texts are executed only when every rule is a generated runnable model rule; otherwise only the surviving known rules are run (selected execution)",
		},
		MinCounters: map[string]int64{"accepted_by_all": 100, "rejected_by_all": 500}})
}
