package specs

import "verifharness/fw"

func init() {
	fw.Reg(&fw.Spec{ID: "C19", Level: "exploration", Quick: 160, Thorough: 2400, CaseTimeoutS: 400, Race: true,
		Rule: "the worker is built with -race (GORACE halt_on_error=0, one log per worker process); case i runs scenario family i mod 8 with a fresh seed: concurrent / mix / inverse / N-M / DAG models with laggard holds and returning rules (result map and error list contended), the same with shared local names, conc blocks, pool storms (C06), capacity storms (C17), update histories concurrent with executions (C07), management rounds (C16) and a management storm (updates, removal, clear, exec-model changes and queries concurrent with requests through all pool methods); GOMAXPROCS varied, hook jitter on. Every WARNING: DATA RACE block is parsed; it is a violation when the innermost frame outside runtime/reflect/sync of at least one access is in github.com/bilibili/gengine; reports wholly inside the ANTLR runtime are out of scope; reports are deduplicated by the pair of innermost gengine functions; distinct = scenario signatures of the underlying families",
		Assumptions: []string{"workloads are race-free on the user side by construction (concurrently running rules touch disjoint injected objects, observers use mutexes/atomics, compiles are serialised)", "the oracles of the underlying families are muted here: only race reports decide C19", "a race must be executed to be reported: silence covers the interleavings and code paths the workload reached"},
		MinCounters: map[string]int64{"holds_entered": 100, "requests_overlapping_mid_rule": 100, "executions_overlapping_an_update": 100, "management_calls_during_requests": 100, "clears_during_requests": 5, "exec_model_changes_during_requests": 5}})
}
