package specs

import "verifharness/fw"

func init() {
	fw.Reg(&fw.Spec{ID: "C06", Level: "exploration", Quick: 96, Thorough: 2400, CaseTimeoutS: 150,
		Rule: "each case is one storm on a fresh pool of size (1,2)...(4,8): max simultaneous gated requests, then 6-15 client goroutines x 12 requests through all 24 pool methods chosen at random (name lists, N/M splits, DAG layerings over 4 request rules and 4 probe rules), every request carrying a unique id in Req, a matching token in Resp and a random subset of the keys k1..k4; rules echo Req.Id into the result, into Resp.Out1..4 and into an observer together with Resp.Token; random 0-300us holds inside the gate rule make requests overlap mid-rule; hook jitter at the pool's get/put/snapshot points; afterwards max simultaneous gated probe requests (pigeonhole: every instance) must see none of the keys; all returned maps are re-compared with their snapshot at the end; distinct = (pool size, number of methods used, max in flight, instances reached, overlap bucket)",
		Assumptions: []string{"identity is checked on values only (ids, tokens); a request's own objects are written by disjoint rules"},
		MinCounters: map[string]int64{"requests": 5000, "requests_overlapping_mid_rule": 500, "storms_where_every_instance_served": 48}})
	fw.Reg(&fw.Spec{ID: "C17", Level: "exploration", Quick: 96, Thorough: 2400, CaseTimeoutS: 150, HangIsViolation: true,
		Rule: "each case is one storm on a fresh pool of size (1,2)...(4,8) in four phases: saturate (exactly max rule bodies held inside an injected gate), 1-3 extra requests that must wait, release and drain, a storm of 4-15 clients x 8 requests through all 24 pool methods with rule errors and panicking injected functions, quiescence checks on hook event counts (gets = scheduled hand-backs, shadow free set complete), re-saturation (the pool must still admit max simultaneous requests within the 20 s progress bound); the shadow in-flight set is fed by the pool.get.locked / pool.put.* hook points under the pool's own locks; GOMAXPROCS in {1,2,4,16}; distinct = (pool size, methods used, max in flight, instances reached, overlap bucket)",
		Assumptions: []string{"the 20 s progress bound (normal latency < 1 ms) is the only wall-clock verdict: waiters proceed / pool can still admit max", "hook points require the worker to be built with -tags verif (always done by ./check)"},
		MinCounters: map[string]int64{"saturations": 150, "waiters_observed": 96, "hook_pool.get.locked": 5000, "hook_pool.put.done": 5000}})
}
