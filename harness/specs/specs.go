// Package specs registers the static description of every property check. It is linked
// into both the coordinator and the worker and imports nothing of gengine.
package specs

import "verifharness/fw"

const e2assume = "rule bodies are observed through injected functions st/en/fl (client boundary); verdicts use event sequence numbers only; the one wall-clock verdict: a case (6-10 calls whose injected functions all terminate, normally < 0.2 s) that has not finished after 60 s did not apply its model to the rules and return"

func init() {
	fw.Reg(&fw.Spec{ID: "C04", Level: "exploration", HangIsViolation: true, Quick: 1000, Thorough: 60000,
		Rule: "generated rule sets (1-10 rules, saliences in [-3,3] with frequent ties plus wide values, random failing/returning subsets, varied names) driven through Execute / ExecuteSelectedRules / ExecuteSelectedRulesWithControl on engines and pools, ~8 calls per set; a case is distinct by (method, flags, priority/fault shape of the set, observed start/end trace); non-trivial = at least one rule body ran",
		Assumptions: []string{e2assume, "failing rules fail through div-by-zero, type errors, missing names or a panicking injected function"},
		MinCounters: map[string]int64{"events": 1000}})
	fw.Reg(&fw.Spec{ID: "C05", Level: "exploration", HangIsViolation: true, Quick: 1000, Thorough: 60000,
		Rule: "generated rule sets (1-10 rules, ties frequent) through the mix, inverse-mix and six N-M methods (engine and pool mirrors), every valid N/M split reachable, random failing subsets, both error-policy values, GOMAXPROCS in {1,2,4,16}; in every call one earlier-stage rule is a laggard that holds in its end observer until a forbidden later-stage start is logged or 0.3-2.5 ms pass; distinct by (method, split, flags, shape, observed trace)",
		Assumptions: []string{e2assume, "holds only provoke; they never decide"},
		MinCounters: map[string]int64{"events": 1000, "holds_entered": 100}})
	fw.Reg(&fw.Spec{ID: "C11", Level: "exploration", HangIsViolation: true, Quick: 1000, Thorough: 60000,
		Rule: "sequences of 6-8 calls with different methods (all 21 engine methods and the 24 pool methods) on the same engine / the same pooled instance, rule sets mixing returning (bare, value, nested in if/for/forRange/else-if), non-returning, failing-before-return and failing-in-return rules; distinct by (method, shape, trace)",
		Assumptions: []string{e2assume},
		MinCounters: map[string]int64{"events": 1000}})
	fw.Reg(&fw.Spec{ID: "C12", Level: "exploration", HangIsViolation: true, Quick: 1000, Thorough: 60000,
		Rule: "all 13 selected-rule methods plus ExecuteSelectedWithSpecifiedEM, name lists = random subsets and permutations, unknown names at random positions, empty and all-unknown lists, selected N-M calls with wrong counts / unknown names; distinct by (method, list shape, set shape, trace)",
		Assumptions: []string{e2assume, "for name lists with a duplicated name only 'no unselected rule runs' is decided"},
		MinCounters: map[string]int64{"events": 1000}})
	fw.Reg(&fw.Spec{ID: "C13", Level: "exploration", HangIsViolation: true, Quick: 800, Thorough: 60000,
		Rule: "DAG layerings with 0-5 layers of width 0-4, empty layers, unknown names, the same rule in several layers and twice in one layer, random failing subsets, a laggard in a layer that has successors, GOMAXPROCS varied; engine and pool mirror; distinct by (layer shape, set shape, trace)",
		Assumptions: []string{e2assume},
		MinCounters: map[string]int64{"events": 1000, "holds_entered": 50}})
	fw.Reg(&fw.Spec{ID: "C14", Level: "exploration", HangIsViolation: true, Quick: 800, Thorough: 50000,
		Rule: "the four stop-tag methods (engine and pool), 0-2 rules that set the tag at random priority positions, random failing subsets, both policy values; the tagged run is validated against the oracle row of the tag-less method plus the stop clause; distinct by (method, setter position, shape, trace)",
		Assumptions: []string{e2assume},
		MinCounters: map[string]int64{"events": 1000}})
	fw.Reg(&fw.Spec{ID: "C15", Level: "exploration", Quick: 600, Thorough: 30000,
		Rule: "rule sets in which every rule uses the same local names: writers (assign own tag, hold, return it), readers-before-write (must fail), run through all 21 engine methods and pool mirrors, repeated calls on the same engine, DAGs with the same rule twice in one layer; plus a leak probe per case: a rule that assigns a local only in the one execution for which once() is true and then reads it - every other execution of that rule (later call on the same engine in every model, concurrent executions of the rule in one DAG layer, later and overlapping requests on a pool) must fail at the read; distinct by (method, shape, trace) and (probe scenario, reads)",
		Assumptions: []string{e2assume},
		MinCounters: map[string]int64{"events": 1000, "leak_probe_rounds": 2000}})
}
