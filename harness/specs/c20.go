package specs

import "verifharness/fw"

func init() {
	fw.Reg(&fw.Spec{ID: "C20", Level: "exploration", Quick: 3000, Thorough: 150000,
		Rule: "generated multi-rule (2-4 rules), multi-line rule texts with random blank lines, comment lines, trailing comments, mixed indentation, " +
			"statements spread over several lines, string literals spanning lines, LF or CRLF line ends, healthy rules before and after; exactly one faulty " +
			"construct whose own text sits on one known line L. Fault classes: arithmetic (type faults, division by literal/injected/float zero, nested, " +
			"compound), comparison and logic type faults, failing calls (unknown function/method/receiver, panicking, too few/many, ill-typed arguments, " +
			"three-level calls), failing assignments (unknown field/receiver, value-injected struct, non-pointer scalar, negative into unsigned, wrong type, " +
			"compound update of a missing target), failing container-element assignments; may-cite classes: name lookups, container reads, forRange " +
			"target, non-bool conditions. The construct is placed at top level, in if / else-if / else / for / forRange bodies, as conc member, two blocks " +
			"deep, in a return expression, as call argument (one-line and multi-line calls), in if / else-if conditions and in the three parts of a for " +
			"header; enclosing statements start on an earlier line than L. Texts are installed by BuildRuleFromString or (half of the cases) by " +
			"BuildRuleWithIncremental onto a builder that already holds other rules, and run with Execute(rb, true). Oracle: every `line N, column` citation " +
			"in the error equals L; must-cite classes carry at least one citation. distinct by (class, variant, enclosing, carrier, placement, L bucket, incremental)",
		Assumptions: []string{
			"a citation is any match of (?i)line\\s*:?\\s*(\\d+)\\s*,\\s*column in the error text; generated identifiers, rule names and string literals never match it",
			"the faulty construct and the assignment / call that directly contains it are on the same line, so every citation must equal L (if/for/forRange/conc nodes do not add citations of their own)",
			"faults in a for header and the may-cite classes need no citation, but a citation they carry must be right",
			"a case whose Execute panics into the caller is inconclusive here (C09), as is a case whose faulty rule unexpectedly succeeds or in which another rule fails",
			"lines are counted by LF within the text handed to the compiling call (for incremental installs: the incremental text)",
		},
		MinCounters: map[string]int64{"cited_right": 1000}})
}
