package specs

import "verifharness/fw"

func init() {
	fw.Reg(&fw.Spec{ID: "C09", Level: "fault_enumeration", Quick: C09Cells + 400, Thorough: C09Cells + 30000, CaseTimeoutS: 30, HangIsViolation: true, CrashIsViolation: true,
		Exhaustive: true,
		Rule: "case indices 0..820 enumerate the fault catalog completely: 55 fault kinds (non-bool condition, ! on non-bool, nil-pointer field, index out of range literal/variable/negative, division by zero (integer, unsigned, float and mixed operand kinds), missing name/key/field/method/function, injected data called as a function, a three-level call on a local number, ill-typed comparison/logic/arithmetic/arguments, too few/many arguments, panicking function (string, error, int and struct panic values) method and three-level method, field of a non-struct, unassignable / nil-map / out-of-range / wrong-type / nil-pointer writes, compound update of a missing target, unexported field, over-long name, break outside a loop, forRange over missing / non-iterable / nil targets, unbounded for) x the constructs they can sit in (if and else-if condition, for init/cond/step, forRange target, return expression, assignment rhs, compound assignment, call argument, argument of a method / three-level call statement, argument of a function / method / three-level call inside a conc block, conc member, nested block, statement at top level / in for / in forRange bodies). Every cell is one rule set {faulty rule - which in one case in three sets the stop tag before it faults -, three healthy rules with observers} driven through entry points: thorough = all 45 (21 engine methods, 24 pool methods), quick = 6 representatives per cell and all 45 for every 13th cell; each call is followed by a healthy selected call on the same engine/pool. The remaining cases put E1-generated ill-typed expressions or hostile injected values (nil nested pointer, empty slice, out-of-range pointer slice) into random constructs. Child processes with journals attribute a crash or hang to the open case. distinct = (fault@construct, entry point, engine|pool)",
		Assumptions: []string{"only nil / non-nil of the returned error is checked", "the hang bound is 30 s per case (a case normally takes < 50 ms); injected functions terminate", "the faulty rule logs fl(id) immediately before the faulty construct and en(id) after it: an en after fl means the fault did not stop the rule"},
		MinCounters: map[string]int64{"catalog_cells": C09Cells, "events": 10000}})
}

// C09Cells is the size of the fault x construct catalog (checked against trace.NFaultCells by the worker).
const C09Cells = 821
