package specs

import "verifharness/fw"

const e1assume = "the reference interpreter (harness/gen) is written from the property text; floats are compared by bit pattern; cases whose reference value the property does not define (NaN, non-representable conversions, an error that only a strict evaluator reaches) are not generated"

func init() {
	fw.Reg(&fw.Spec{ID: "C01", Level: "exploration", Quick: 640, Thorough: 16000,
		Rule: "each case compiles one text of 40 single-expression rules (`[locals] return <expr>`) over literals (int, real incl. exponent forms, string, bool), rule locals, injected values of all 12 numeric kinds / strings / bools (scalars, struct fields one and two levels deep, map/slice/array elements incl. missing keys) and @name/@id/@desc/@sal; trees of depth<=6 and <=24 leaves are generated first and printed with only the parentheses the reference precedence requires (plus random redundant ones and random spacing); 1/8 of the rules carry one deliberate type error or division by zero where every evaluation order reaches it; distinct = structural shape (operators, leaf names, parentheses) of expressions with >=2 leaves",
		Assumptions: []string{e1assume, "error texts are never inspected; a failing rule is recognised by its missing result entry and the non-nil call error"},
		MinCounters: map[string]int64{"expressions_with_value": 5000, "expressions_expected_to_fail": 500}})
	fw.Reg(&fw.Spec{ID: "C02", Level: "exploration", Quick: 640, Thorough: 24000,
		Rule: "each case compiles one text of 5 generated statement programs (<=40 statements, nesting <=5): sequences, if / else-if chains / else with several true branches, for loops (counting up/down, step through an observer, break/continue at varying depth, nested loops), forRange over value-injected slices/arrays/struct-field containers (index order) and maps (order-insensitive bodies, trace compared as a bag), return bare/with value at any depth followed by sentinel statements, plain and compound assignments to locals, injected fields and slice elements, locals first assigned in a nested block; every basic block starts with tr(<unique id>); distinct = multiset of statement kinds x returned x fault",
		Assumptions: []string{e1assume, "programs run in the sort model with distinct saliences on one shared fixture; the reference runs them in the same order"},
		MinCounters: map[string]int64{"trace_events": 20000, "stmt_for": 500, "stmt_if": 500, "stmt_return": 100, "stmt_break": 100, "stmt_continue": 100}})
}
