package main

import (
	"fmt"
	"os"
	"regexp"
	"sort"
	"strings"

	"verifharness/fw"
)

// E6: parser / classifier for Go race detector logs (GORACE=halt_on_error=0 log_path=...).

type frame struct {
	fn   string
	file string
	line string
}

type raceReport struct {
	raw      string
	accesses [][]frame // two stacks: current access, previous access
	kinds    []string  // "Write", "Previous read", ...
}

var accessHdr = regexp.MustCompile(`^(Read|Write|Previous read|Previous write|Atomic read|Atomic write|Previous atomic read|Previous atomic write) at 0x[0-9a-f]+ by `)
var fileLine = regexp.MustCompile(`^\s+(\S+):(\d+)( \+0x[0-9a-f]+)?$`)

func parseRaceLog(text string) []raceReport {
	var reps []raceReport
	blocks := strings.Split(text, "WARNING: DATA RACE")
	for _, b := range blocks[1:] {
		if i := strings.Index(b, "=================="); i >= 0 {
			b = b[:i]
		}
		rep := raceReport{raw: "WARNING: DATA RACE" + b}
		lines := strings.Split(b, "\n")
		cur := -1
		for i := 0; i < len(lines); i++ {
			l := lines[i]
			if m := accessHdr.FindStringSubmatch(l); m != nil {
				rep.accesses = append(rep.accesses, nil)
				rep.kinds = append(rep.kinds, m[1])
				cur = len(rep.accesses) - 1
				continue
			}
			if strings.HasPrefix(l, "Goroutine ") || strings.TrimSpace(l) == "" {
				if strings.HasPrefix(l, "Goroutine ") {
					cur = -1
				}
				continue
			}
			if cur >= 0 && strings.HasPrefix(l, "  ") && !strings.HasPrefix(l, "      ") {
				fn := strings.TrimSpace(l)
				if j := strings.LastIndex(fn, "("); j > 0 {
					fn = fn[:j]
				}
				fr := frame{fn: fn}
				if i+1 < len(lines) {
					if m := fileLine.FindStringSubmatch(lines[i+1]); m != nil {
						fr.file, fr.line = m[1], m[2]
						i++
					}
				}
				rep.accesses[cur] = append(rep.accesses[cur], fr)
			}
		}
		if len(rep.accesses) >= 2 {
			reps = append(reps, rep)
		}
	}
	return reps
}

func isInfra(fn string) bool {
	for _, p := range []string{"runtime.", "reflect.", "sync.", "sync/atomic.", "internal/", "strings.", "fmt.", "sort.", "errors.", "strconv.", "unicode"} {
		if strings.HasPrefix(fn, p) {
			return true
		}
	}
	return false
}

// owner returns the innermost frame that is not Go runtime / reflect / sync plumbing.
func owner(st []frame) (frame, bool) {
	for _, f := range st {
		if !isInfra(f.fn) {
			return f, true
		}
	}
	return frame{}, false
}

func inGengine(fn string) bool {
	return strings.HasPrefix(fn, "github.com/bilibili/gengine/")
}
func inAntlr(fn string) bool { return strings.Contains(fn, "github.com/antlr/antlr4/") }

func stripGeneric(fn string) string {
	// closures: pkg.(*T).M.func1 -> keep
	return fn
}

func classifyRaceLogs(files []string, prop, tier string, seed int64) ([]fw.Violation, map[string]int64) {
	stats := map[string]int64{}
	var out []fw.Violation
	seen := map[string]int{}
	first := map[string]fw.Violation{}
	for _, f := range files {
		b, err := os.ReadFile(f)
		if err != nil {
			continue
		}
		for _, rep := range parseRaceLog(string(b)) {
			stats["race_reports_total"]++
			o0, ok0 := owner(rep.accesses[0])
			o1, ok1 := owner(rep.accesses[1])
			if !ok0 || !ok1 {
				stats["race_reports_unattributed"]++
				continue
			}
			if inAntlr(o0.fn) && inAntlr(o1.fn) {
				stats["race_reports_antlr_runtime_out_of_scope"]++
				continue
			}
			if !inGengine(o0.fn) && !inGengine(o1.fn) {
				// the harness' own data or a third party: not gengine's state. Counted so that a
				// racy harness does not go unnoticed.
				stats["race_reports_not_gengine"]++
				continue
			}
			a, c := stripGeneric(o0.fn), stripGeneric(o1.fn)
			if a > c {
				a, c = c, a
			}
			key := "race|" + a + "|" + c
			seen[key]++
			if _, ok := first[key]; !ok {
				first[key] = fw.Violation{Property: prop, Key: key, Tier: tier, Seed: seed, Case: -1,
					What:   fmt.Sprintf("data race on gengine state: %s (%s:%s) vs %s (%s:%s)", o0.fn, shortFile(o0.file), o0.line, o1.fn, shortFile(o1.file), o1.line),
					Detail: map[string]interface{}{"report": truncate(rep.raw, 6000), "log": f}}
			}
		}
	}
	keys := make([]string, 0, len(first))
	for k := range first {
		keys = append(keys, k)
	}
	sort.Strings(keys)
	for _, k := range keys {
		v := first[k]
		for i := 0; i < seen[k]; i++ {
			out = append(out, v)
			if i >= 0 {
				break
			}
		}
		stats["race_reports_gengine"] += int64(seen[k])
	}
	stats["race_distinct_site_pairs_gengine"] = int64(len(keys))
	return out, stats
}

func shortFile(f string) string {
	if i := strings.Index(f, "/repo/"); i >= 0 {
		return f[i+6:]
	}
	return f
}
