// vcheck is the coordinator: it rebuilds the worker from /repo's current working tree
// (build tag verif), fans the cases of one property check out over worker processes,
// survives their crashes and hangs, aggregates what the monitors observed, writes the
// evidence file and prints the verdict lines.
//
//	vcheck <property> <quick|thorough>
//	vcheck <property> --replay <file>
package main

import (
	"bufio"
	"bytes"
	"encoding/json"
	"fmt"
	"hash/fnv"
	"os"
	"os/exec"
	"path/filepath"
	"sort"
	"strconv"
	"strings"
	"sync"
	"syscall"
	"time"

	"verifharness/fw"
	_ "verifharness/specs"
)

var root string // /verif

func env() []string {
	e := os.Environ()
	e = append(e, "GOFLAGS=-mod=mod", "GOPROXY=off", "GOSUMDB=off", "GOTOOLCHAIN=local")
	return e
}

func buildWorker(dst string, race bool) error {
	args := []string{"build", "-tags", "verif"}
	if race {
		args = append(args, "-race")
	}
	args = append(args, "-o", dst, "./cmd/vworker")
	cmd := exec.Command("go", args...)
	cmd.Dir = filepath.Join(root, "harness")
	cmd.Env = env()
	out, err := cmd.CombinedOutput()
	if err != nil {
		return fmt.Errorf("%v\n%s", err, out)
	}
	return nil
}

type known struct {
	Status   string `json:"status"`
	Property string `json:"property"`
	Key      string `json:"key"`
	What     string `json:"what"`
	Commit   string `json:"commit,omitempty"`
}

func loadKnown() []known {
	// KNOWN_FINDINGS.txt, one finding per line:
	//   known: property=<id> key=<key> <what fails>      (suppresses exactly that key, prints KNOWN-FINDING)
	//   fixed: property=<id> <commit> <what failed>       (suppresses nothing)
	var ks []known
	f, err := os.Open(filepath.Join(root, "KNOWN_FINDINGS.txt"))
	if err != nil {
		return nil
	}
	defer f.Close()
	sc := bufio.NewScanner(f)
	sc.Buffer(make([]byte, 1<<20), 1<<20)
	for sc.Scan() {
		line := strings.TrimSpace(sc.Text())
		if !strings.HasPrefix(line, "known:") {
			continue
		}
		fs := strings.Fields(strings.TrimSpace(strings.TrimPrefix(line, "known:")))
		if len(fs) < 2 || !strings.HasPrefix(fs[0], "property=") || !strings.HasPrefix(fs[1], "key=") {
			continue
		}
		ks = append(ks, known{Status: "known", Property: strings.TrimPrefix(fs[0], "property="), Key: strings.TrimPrefix(fs[1], "key="), What: strings.Join(fs[2:], " ")})
	}
	return ks
}

type segOutcome struct {
	res      *fw.BatchResult
	crashed  bool
	crashAt  int
	jviol    []fw.Violation
	jcases   int64
	stderr   string
	exitCode int
	timedOut bool
}

func tail(path string, n int) string {
	b, err := os.ReadFile(path)
	if err != nil {
		return ""
	}
	if len(b) > n {
		b = b[len(b)-n:]
	}
	return string(b)
}

func head(path string, n int) string {
	b, err := os.ReadFile(path)
	if err != nil {
		return ""
	}
	if len(b) > n {
		b = b[:n]
	}
	return string(b)
}

func runSegment(worker, work string, spec *fw.Spec, tier string, seed int64, batch, nbatch, from, seg int, outer time.Duration) segOutcome {
	base := filepath.Join(work, fmt.Sprintf("b%02d.s%02d", batch, seg))
	outF, jF, errF := base+".json", base+".journal", base+".stderr"
	cmd := exec.Command(worker, "-prop", spec.ID, "-tier", tier, "-seed", strconv.FormatInt(seed, 10),
		"-batch", strconv.Itoa(batch), "-nbatch", strconv.Itoa(nbatch), "-from", strconv.Itoa(from),
		"-out", outF, "-journal", jF)
	ef, _ := os.Create(errF)
	cmd.Stderr = ef
	cmd.Stdout = ef
	e := env()
	if spec.Race {
		e = append(e, "GORACE=halt_on_error=0 log_path="+base+".race")
	}
	e = append(e, "GOTRACEBACK=all")
	cmd.Env = e
	cmd.SysProcAttr = &syscall.SysProcAttr{Setpgid: true}
	var so segOutcome
	if err := cmd.Start(); err != nil {
		so.crashed = true
		so.stderr = err.Error()
		so.crashAt = from
		return so
	}
	done := make(chan error, 1)
	go func() { done <- cmd.Wait() }()
	var werr error
	select {
	case werr = <-done:
	case <-time.After(outer):
		so.timedOut = true
		cmd.Process.Signal(syscall.SIGQUIT)
		select {
		case werr = <-done:
		case <-time.After(10 * time.Second):
			syscall.Kill(-cmd.Process.Pid, syscall.SIGKILL)
			werr = <-done
		}
	}
	ef.Close()
	code := 0
	if werr != nil {
		code = -1
		if ee, ok := werr.(*exec.ExitError); ok {
			code = ee.ExitCode()
		}
	}
	so.exitCode = code
	if (code == 0 || code == 4) && !so.timedOut {
		b, err := os.ReadFile(outF)
		if err == nil {
			var r fw.BatchResult
			if json.Unmarshal(b, &r) == nil {
				so.res = &r
				return so
			}
		}
	}
	// crash: recover what the journal has
	so.crashed = true
	so.crashAt = -1
	so.stderr = head(errF, 6000) + "\n...\n" + tail(errF, 3000)
	if jf, err := os.Open(jF); err == nil {
		sc := bufio.NewScanner(jf)
		sc.Buffer(make([]byte, 1<<24), 1<<24)
		open := -1
		for sc.Scan() {
			l := sc.Text()
			switch {
			case strings.HasPrefix(l, "B "):
				open, _ = strconv.Atoi(l[2:])
			case strings.HasPrefix(l, "E "):
				open = -1
				so.jcases++
			case strings.HasPrefix(l, "V "):
				var v fw.Violation
				if json.Unmarshal([]byte(l[2:]), &v) == nil {
					so.jviol = append(so.jviol, v)
				}
			}
		}
		jf.Close()
		so.crashAt = open
	}
	return so
}

type aggregate struct {
	stoppedEarly bool // a termination property: enough hangs seen, remaining cases skipped
	mu           sync.Mutex
	evaluations  int64
	cases        int64
	hashes       map[uint64]struct{}
	counters     map[string]int64
	max          map[string]int64
	samples      []interface{}
	violations   []fw.Violation
	inconclusive []string
	crashes      int
	hangs        int
	raceFiles    []string
}

func (a *aggregate) add(r *fw.BatchResult) {
	a.mu.Lock()
	defer a.mu.Unlock()
	a.evaluations += r.Evaluations
	a.cases += r.Cases
	for _, h := range r.Hashes {
		a.hashes[h] = struct{}{}
	}
	for k, v := range r.Counters {
		a.counters[k] += v
	}
	for k, v := range r.Max {
		if v > a.max[k] {
			a.max[k] = v
		}
	}
	if len(a.samples) < 6 {
		for _, s := range r.Samples {
			if len(a.samples) < 6 {
				a.samples = append(a.samples, s)
			}
		}
	}
	a.violations = append(a.violations, r.Violations...)
	a.inconclusive = append(a.inconclusive, r.Inconclusive...)
}

func seedFromEnv() int64 {
	s := os.Getenv("VERIF_SEED")
	if s == "" {
		return 1
	}
	if v, err := strconv.ParseInt(s, 10, 64); err == nil {
		return v
	}
	h := fnv.New64a()
	h.Write([]byte(s))
	return int64(h.Sum64() & 0x7fffffff)
}

func main() {
	wd, _ := os.Getwd()
	root = os.Getenv("VERIF_ROOT")
	if root == "" {
		root = wd
	}
	if len(os.Args) < 3 {
		fmt.Fprintln(os.Stderr, "usage: vcheck <property> <quick|thorough> | vcheck <property> --replay <file>")
		os.Exit(2)
	}
	prop := os.Args[1]
	spec := fw.Specs[prop]
	if spec == nil {
		fmt.Fprintf(os.Stderr, "vcheck: unknown property %q\n", prop)
		os.Exit(2)
	}
	if os.Args[2] == "--replay" {
		if len(os.Args) < 4 {
			fmt.Fprintln(os.Stderr, "vcheck: --replay needs a file")
			os.Exit(2)
		}
		replay(spec, os.Args[3])
		return
	}
	tier := os.Args[2]
	if tier != "quick" && tier != "thorough" {
		fmt.Fprintln(os.Stderr, "vcheck: tier must be quick or thorough")
		os.Exit(2)
	}
	seed := seedFromEnv()
	t0 := time.Now()

	work := filepath.Join(root, "work", fmt.Sprintf("%s-%s-%d", prop, tier, os.Getpid()))
	os.RemoveAll(work)
	os.MkdirAll(work, 0755)
	defer os.RemoveAll(work)
	os.MkdirAll(filepath.Join(root, "evidence"), 0755)
	os.MkdirAll(filepath.Join(root, "replays"), 0755)

	worker := filepath.Join(work, "vworker")
	if err := buildWorker(worker, spec.Race); err != nil {
		fmt.Printf("BUILD-FAILED property=%s: the worker could not be built from /repo's working tree\n%v\n", prop, err)
		os.RemoveAll(work)
		os.Exit(2)
	}
	buildS := time.Since(t0).Seconds()

	total := spec.Total(tier)
	nb := spec.MaxProcs
	if nb <= 0 {
		nb = 16
	}
	if nb > total {
		nb = total
	}
	outer := 40 * time.Minute
	if tier == "thorough" {
		outer = 5 * time.Hour
	}
	agg := &aggregate{hashes: map[uint64]struct{}{}, counters: map[string]int64{}, max: map[string]int64{}}
	var wg sync.WaitGroup
	for b := 0; b < nb; b++ {
		wg.Add(1)
		go func(b int) {
			defer wg.Done()
			from := b
			for seg := 0; from < total; seg++ {
				agg.mu.Lock()
				cut := agg.stoppedEarly
				agg.mu.Unlock()
				if cut {
					return
				}
				if seg > 60 {
					agg.mu.Lock()
					agg.inconclusive = append(agg.inconclusive, fmt.Sprintf("batch %d: gave up after %d restarts", b, seg))
					agg.mu.Unlock()
					return
				}
				so := runSegment(worker, work, spec, tier, seed, b, nb, from, seg, outer)
				if spec.Race {
					ms, _ := filepath.Glob(filepath.Join(work, fmt.Sprintf("b%02d.s%02d.race*", b, seg)))
					agg.mu.Lock()
					agg.raceFiles = append(agg.raceFiles, ms...)
					agg.mu.Unlock()
				}
				if so.res != nil {
					agg.add(so.res)
					if so.res.Done {
						return
					}
					// per-case watchdog fired
					agg.mu.Lock()
					agg.hangs++
					if spec.HangIsViolation {
						agg.violations = append(agg.violations, fw.Violation{Property: prop, Key: "hang", Tier: tier, Seed: seed, Case: so.res.HungCase,
							What:   fmt.Sprintf("case %d did not finish within the %d s progress bound", so.res.HungCase, spec.CaseTimeoutS),
							Detail: map[string]interface{}{"goroutines": truncate(so.res.HangDump, 20000)}})
					} else {
						agg.inconclusive = append(agg.inconclusive, fmt.Sprintf("case %d: watchdog (%d s) fired; not a verdict for this property", so.res.HungCase, spec.CaseTimeoutS))
						agg.counters["inconclusive_cases"]++
					}
					stop := spec.HangIsViolation && agg.hangs >= 4
					if stop && !agg.stoppedEarly {
						agg.stoppedEarly = true
						agg.inconclusive = append(agg.inconclusive, "the run was cut short after 4 cases had exceeded the progress bound (each is reported as a violation); the remaining cases were not executed")
					}
					agg.mu.Unlock()
					if stop {
						return
					}
					from = so.res.NextCase
					continue
				}
				// crash or outer timeout
				agg.mu.Lock()
				agg.crashes++
				agg.cases += so.jcases
				agg.violations = append(agg.violations, so.jviol...)
				at := so.crashAt
				why := "worker process died"
				if so.timedOut {
					why = "worker exceeded the outer wall-clock limit"
				}
				if at < 0 {
					agg.inconclusive = append(agg.inconclusive, fmt.Sprintf("batch %d: %s outside any case (exit %d): %s", b, why, so.exitCode, truncate(so.stderr, 400)))
					agg.mu.Unlock()
					return
				}
				if spec.CrashIsViolation && !so.timedOut {
					agg.violations = append(agg.violations, fw.Violation{Property: prop, Key: "crash", Tier: tier, Seed: seed, Case: at,
						What:   fmt.Sprintf("case %d killed the process (exit %d)", at, so.exitCode),
						Detail: map[string]interface{}{"stderr": so.stderr}})
				} else {
					agg.inconclusive = append(agg.inconclusive, fmt.Sprintf("case %d: %s (exit %d); not a verdict for this property: %s", at, why, so.exitCode, firstLine(so.stderr)))
					agg.counters["inconclusive_cases"]++
				}
				agg.mu.Unlock()
				from = at + nb
			}
		}(b)
	}
	wg.Wait()

	if spec.Race {
		rv, rstats := classifyRaceLogs(agg.raceFiles, prop, tier, seed)
		agg.violations = append(agg.violations, rv...)
		for k, v := range rstats {
			agg.counters[k] += v
		}
	}

	finish(spec, tier, seed, agg, time.Since(t0).Seconds(), buildS)
}

func truncate(s string, n int) string {
	if len(s) > n {
		return s[:n] + "…"
	}
	return s
}

func firstLine(s string) string {
	for _, l := range strings.Split(s, "\n") {
		l = strings.TrimSpace(l)
		if l != "" {
			return truncate(l, 300)
		}
	}
	return ""
}

func finish(spec *fw.Spec, tier string, seed int64, agg *aggregate, wall, buildS float64) {
	prop := spec.ID
	ks := loadKnown()
	isKnown := func(v fw.Violation) *known {
		for i := range ks {
			if ks[i].Status == "known" && ks[i].Property == v.Property && ks[i].Key == v.Key {
				return &ks[i]
			}
		}
		return nil
	}
	// group by key
	type group struct {
		first fw.Violation
		n     int
		known *known
	}
	groups := map[string]*group{}
	var order []string
	for _, v := range agg.violations {
		gk := v.Property + "|" + v.Key
		g := groups[gk]
		if g == nil {
			g = &group{first: v, known: isKnown(v)}
			groups[gk] = g
			order = append(order, gk)
		}
		g.n++
	}
	sort.Strings(order)
	newViol := 0
	knownHits := 0
	var lines []string
	for _, gk := range order {
		g := groups[gk]
		if g.known != nil {
			knownHits++
			lines = append(lines, fmt.Sprintf("KNOWN-FINDING: property=%s %s (key %s, seen %d×)", g.first.Property, g.known.What, g.known.Key, g.n))
			continue
		}
		newViol++
		name := fmt.Sprintf("%s-%s-%d-%d-%s.json", g.first.Property, tier, seed, g.first.Case, safe(g.first.Key))
		path := filepath.Join(root, "replays", name)
		rec := map[string]interface{}{"property": g.first.Property, "check": prop, "tier": tier, "seed": seed, "case": g.first.Case,
			"key": g.first.Key, "what": g.first.What, "occurrences_in_run": g.n, "detail": g.first.Detail,
			"replay_cmd": fmt.Sprintf("./check %s --replay %s", prop, path)}
		b, _ := json.MarshalIndent(rec, "", " ")
		os.WriteFile(path, b, 0644)
		lines = append(lines, fmt.Sprintf("VIOLATION property=%s replay=%s", g.first.Property, path))
		lines = append(lines, fmt.Sprintf("  what: %s  [key %s, %d occurrence(s)]", truncate(g.first.What, 400), g.first.Key, g.n))
	}

	// thresholds
	var short []string
	for name, min := range spec.MinCounters {
		have := agg.counters[name]
		if m, ok := agg.max[name]; ok && m > have {
			have = m
		}
		if have < min {
			short = append(short, fmt.Sprintf("observation threshold %s: %d < %d", name, have, min))
		}
	}
	sort.Strings(short)

	cov := map[string]interface{}{
		"evaluations":         agg.evaluations,
		"distinct_nontrivial": len(agg.hashes),
		"rule":                spec.Rule,
		"samples":             agg.samples,
		"cases":               agg.cases,
		"counters":            agg.counters,
		"max":                 agg.max,
		"worker_crashes":      agg.crashes,
		"watchdog_hangs":      agg.hangs,
		"inconclusive":        append(append([]string{}, short...), capList(agg.inconclusive, 30)...),
		"known_findings_hit":  knownHits,
		"build_s":             round1(buildS),
	}
	if spec.Exhaustive {
		// the finite catalog part of the case list was enumerated completely (the random cases
		// that follow it are exploration, so "exhaustive" is not claimed for the run as a whole)
		cov["finite_catalog_enumerated_completely"] = true
		cov["exhaustive"] = false
	}
	if agg.samples == nil {
		cov["samples"] = []interface{}{}
	}
	ev := map[string]interface{}{
		"property_id": prop,
		"tier":        tier,
		"seed":        seed,
		"level":       spec.Level,
		"coverage":    cov,
		"assumptions": spec.Assumptions,
		"wall_s":      round1(wall),
		"violations":  newViol,
	}
	b, _ := json.MarshalIndent(ev, "", " ")
	os.WriteFile(filepath.Join(root, "evidence", prop+".json"), b, 0644)

	for _, l := range lines {
		fmt.Println(l)
	}
	for _, s := range short {
		fmt.Println("INCONCLUSIVE " + prop + ": " + s)
	}
	if n := len(agg.inconclusive); n > 0 {
		fmt.Printf("INCONCLUSIVE %s: %d case(s) without verdict, e.g. %s\n", prop, n, truncate(agg.inconclusive[0], 300))
	}
	fmt.Printf("%s %s seed=%d: cases=%d evaluations=%d distinct=%d violations=%d known=%d crashes=%d hangs=%d wall=%.1fs (build %.1fs)\n",
		prop, tier, seed, agg.cases, agg.evaluations, len(agg.hashes), newViol, knownHits, agg.crashes, agg.hangs, wall, buildS)
	if newViol > 0 {
		os.RemoveAll(filepath.Join(root, "work", fmt.Sprintf("%s-%s-%d", prop, tier, os.Getpid())))
		os.Exit(1)
	}
	if agg.evaluations == 0 {
		fmt.Printf("HARNESS-FAILURE %s: the run observed nothing\n", prop)
		os.RemoveAll(filepath.Join(root, "work", fmt.Sprintf("%s-%s-%d", prop, tier, os.Getpid())))
		os.Exit(3)
	}
}

func capList(l []string, n int) []string {
	if len(l) > n {
		return l[:n]
	}
	return l
}

func round1(f float64) float64 { return float64(int64(f*10+0.5)) / 10 }

func safe(s string) string {
	var b bytes.Buffer
	for _, r := range s {
		if (r >= 'a' && r <= 'z') || (r >= 'A' && r <= 'Z') || (r >= '0' && r <= '9') || r == '-' || r == '_' {
			b.WriteRune(r)
		} else {
			b.WriteByte('_')
		}
		if b.Len() > 60 {
			break
		}
	}
	return b.String()
}

func replay(spec *fw.Spec, path string) {
	b, err := os.ReadFile(path)
	if err != nil {
		fmt.Fprintln(os.Stderr, err)
		os.Exit(2)
	}
	var rec struct {
		Tier string `json:"tier"`
		Seed int64  `json:"seed"`
		Case int    `json:"case"`
	}
	if err := json.Unmarshal(b, &rec); err != nil {
		fmt.Fprintln(os.Stderr, err)
		os.Exit(2)
	}
	work := filepath.Join(root, "work", fmt.Sprintf("%s-replay-%d", spec.ID, os.Getpid()))
	os.MkdirAll(work, 0755)
	defer os.RemoveAll(work)
	worker := filepath.Join(work, "vworker")
	if err := buildWorker(worker, spec.Race); err != nil {
		fmt.Printf("BUILD-FAILED property=%s\n%v\n", spec.ID, err)
		os.RemoveAll(work)
		os.Exit(2)
	}
	rep := "1"
	if r := os.Getenv("VERIF_REPEAT"); r != "" {
		rep = r
	}
	cmd := exec.Command(worker, "-prop", spec.ID, "-tier", rec.Tier, "-seed", strconv.FormatInt(rec.Seed, 10), "-only", strconv.Itoa(rec.Case), "-repeat", rep)
	cmd.Env = append(env(), "GOTRACEBACK=all")
	cmd.Stdout = os.Stdout
	cmd.Stderr = os.Stderr
	err = cmd.Run()
	os.RemoveAll(work)
	if err != nil {
		fmt.Printf("VIOLATION property=%s replay=%s\n", spec.ID, path)
		os.Exit(1)
	}
}
