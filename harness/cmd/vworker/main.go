// vworker runs the cases of one batch of one property check inside one process.
// It is rebuilt from /repo's working tree (build tag verif) by vcheck before every run.
package main

import (
	"encoding/json"
	"flag"
	"fmt"
	"os"
	"runtime"
	"time"

	"verifharness/fw"
	_ "verifharness/families"
)

func main() {
	prop := flag.String("prop", "", "property id")
	tier := flag.String("tier", "quick", "quick|thorough")
	seed := flag.Int64("seed", 1, "VERIF_SEED")
	batch := flag.Int("batch", 0, "batch number")
	nbatch := flag.Int("nbatch", 1, "number of batches")
	from := flag.Int("from", -1, "first global case index (default: batch)")
	only := flag.Int("only", -1, "run only this global case index (replay)")
	repeat := flag.Int("repeat", 1, "with -only: how many times")
	out := flag.String("out", "", "result file")
	journal := flag.String("journal", "", "journal file")
	flag.Parse()

	spec := fw.Specs[*prop]
	fam := fw.Families[*prop]
	if spec == nil || fam == nil {
		fmt.Fprintf(os.Stderr, "vworker: unknown property %q\n", *prop)
		os.Exit(2)
	}
	var jf *os.File
	if *journal != "" {
		f, err := os.OpenFile(*journal, os.O_CREATE|os.O_WRONLY|os.O_APPEND, 0644)
		if err != nil {
			fmt.Fprintln(os.Stderr, err)
			os.Exit(2)
		}
		jf = f
	}
	start := *from
	if start < 0 {
		start = *batch
	}
	col := fw.NewCollector(*prop, *tier, *seed, *batch, *nbatch, start, jf)
	total := spec.Total(*tier)
	write := func() {
		if *out == "" {
			return
		}
		b, _ := json.Marshal(col.Result())
		tmp := *out + ".tmp"
		os.WriteFile(tmp, b, 0644)
		os.Rename(tmp, *out)
	}
	runCase := func(g int, replay bool) bool {
		k := col.NewCase(g, replay)
		col.Begin(g)
		done := make(chan struct{})
		go func() {
			defer close(done)
			fam(k)
		}()
		select {
		case <-done:
		case <-time.After(time.Duration(spec.CaseTimeoutS) * time.Second):
			buf := make([]byte, 1<<20)
			n := runtime.Stack(buf, true)
			col.SetHang(g, string(buf[:n]))
			return false
		}
		col.End(g)
		return true
	}
	if *only >= 0 {
		for r := 0; r < *repeat; r++ {
			if !runCase(*only, true) {
				break
			}
		}
		col.SetDone(true, *only+1)
		write()
		res := col.Result()
		b, _ := json.MarshalIndent(res.Violations, "", " ")
		fmt.Printf("replay case %d x%d: %d violation(s)\n%s\n", *only, *repeat, len(res.Violations), b)
		if len(res.Violations) > 0 || res.HungCase >= 0 {
			os.Exit(1)
		}
		return
	}
	g := start
	for ; g < total; g += *nbatch {
		if !runCase(g, false) {
			col.SetDone(false, g+*nbatch)
			write()
			os.Exit(4)
		}
	}
	col.SetDone(true, g)
	write()
}
