// Package linecite implements the C20 monitor: error messages of a failed rule must cite
// the 1-based line, within the compiled text, of the construct that failed.
//
// One case = one generated multi-rule, multi-line text with exactly one faulty construct
// whose own text sits entirely on one known line L.
package linecite

// ObjT is injected by pointer under the name "Obj".
type ObjT struct {
	I   int
	U8  uint8
	B   bool
	S   string
	M   map[string]int
	F   float64
	Sub *SubT
}

// Inc is a healthy method with one int parameter.
func (o *ObjT) Inc(n int) int { return n + 1 }

// Label is a healthy method without parameters.
func (o *ObjT) Label() string { return "lbl" }

// Explode panics.
func (o *ObjT) Explode() int { panic("method exploded") }

// SubT is reachable as Obj.Sub (three-level calls).
type SubT struct{ N int }

func (s *SubT) Get(n int) int { return n + 2 }
func (s *SubT) Fail() int     { panic("sub failed") }

// ValT is injected BY VALUE under the name "Val": its fields are not assignable.
type ValT struct{ F int }

// ZT is injected by pointer under the name "Z"; no generated rule ever writes to it.
type ZT struct {
	Zero   int
	Zero8  int8
	Zero16 int16
	Zero32 int32
	ZeroU  uint16
	ZeroF  float32
	Five   int
	Yes  bool
	No   bool
}

// NewAPI returns fresh injected data for one case (nothing is shared between cases).
func NewAPI() map[string]interface{} {
	pnum := 11
	return map[string]interface{}{
		"Obj":   &ObjT{S: "s", M: map[string]int{"k": 1}, Sub: &SubT{N: 1}},
		"Val":   ValT{F: 1},
		"Z":     &ZT{Zero: 0, Five: 5, Yes: true, No: false},
		"Num":   7,     // non-pointer scalar: unassignable, not iterable
		"PNum":  &pnum, // pointer scalar: assignable with a number only
		"Items": []int{4, 5, 6},
		"Cnt":   map[string]int{"a": 1, "b": 2},
		"two":   func(a, b int) int { return a + b },
		"sink":  func(a int) int { return a },
		"boom":  func() int { panic("kaboom") },
	}
}
