package linecite

import "math/rand"

// Template kinds: what syntactic forms a fault has.
const (
	kExpr       = "expr"       // value expression; boolean-context form is "<expr> > 0"
	kBool       = "bool"       // boolean expression; usable as value and as condition
	kCall       = "call"       // call: statement, value expression, "<call> > 0"
	kAssign     = "assign"     // assignment statement only
	kAssignOnly = "assignonly" // value expression that is an ERROR only inside an assignment (panics elsewhere)
	kCond       = "cond"       // usable only as a condition (non-bool condition: currently panics)
	kRange      = "range"      // target name of a forRange header
	kStmt       = "stmt"       // a whole statement with a block of its own (never inside conc, never in a for header)
)

// Classes. Must-cite classes come from the property statement ("arithmetic faults, comparison
// and logic type faults, failing calls and failing assignments always cite one"). elemassign is
// the subset of failing assignments whose target is a container element (kept apart so that the
// violation key identifies the node kind involved).
const (
	ClArith      = "arith"
	ClCmp        = "cmp"
	ClLogic      = "logic"
	ClCall       = "call"
	ClAssign     = "assign"
	ClElemAssign = "elemassign"
	ClLookup     = "lookup"    // may cite
	ClContainer  = "container" // may cite (container element reads)
	ClForRange   = "forrange"  // may cite (forRange target)
	ClCond       = "cond"      // may cite (non-bool condition)
	ClLoop       = "loop"      // may cite (a for loop cut off by the iteration bound)
)

var mustCite = map[string]bool{ClArith: true, ClCmp: true, ClLogic: true, ClCall: true, ClAssign: true, ClElemAssign: true}

type template struct {
	class, variant, kind string
	alts                 []string
}

var catalog = []template{
	// ---- arithmetic
	{ClArith, "add_str", kExpr, []string{`1 + "a"`, `Obj.I + "a"`, `2 + Obj.S`, `"a" + 1`}},
	{ClArith, "sub_str", kExpr, []string{`"a" - 1`, `Obj.S - 1`, `3 - "b"`}},
	{ClArith, "mul_bool", kExpr, []string{`Obj.B * 2`, `3 * Z.Yes`, `Z.Yes * Z.No`}},
	{ClArith, "div_type", kExpr, []string{`"a" / 2`, `4 / Obj.S`}},
	{ClArith, "div_zero_lit", kExpr, []string{`1 / 0`, `Obj.I / 0`, `7 / 0`}},
	{ClArith, "div_zero_inj", kExpr, []string{`5 / Z.Zero`, `Obj.F / Z.Zero`}},
	{ClArith, "div_zero_widths", kExpr, []string{`5 / Z.Zero8`, `Obj.I / Z.Zero16`, `7 / Z.Zero32`, `Obj.I / Z.ZeroU`, `3 / Z.ZeroF`, `Obj.U8 / Z.Zero16`}},
	{ClArith, "div_zero_float", kExpr, []string{`1.5 / 0.0`}},
	{ClArith, "nested", kExpr, []string{`(1 + 2) * (3 / Z.Zero)`, `2 * (1 + "a")`, `1 + 2 * Obj.B`}},
	{ClArith, "compound_div_zero", kAssign, []string{`Obj.I /= 0`, `Obj.F /= Z.Zero`}},
	{ClArith, "compound_type", kAssign, []string{`Obj.S += 1`, `Obj.I -= "a"`, `Obj.I *= Z.Yes`}},
	// ---- comparison type faults
	{ClCmp, "num_str", kBool, []string{`1 == "a"`, `1 > "a"`, `"a" < 2`, `Obj.S >= 3`, `Obj.I <= "q"`}},
	{ClCmp, "bool_order", kBool, []string{`true > false`, `Z.Yes <= Z.No`}},
	{ClCmp, "bool_other", kBool, []string{`Obj.B == 1`, `Z.Yes != "x"`}},
	// ---- logic type faults
	{ClLogic, "and_nonbool", kBool, []string{`1 && true`, `Obj.I && Z.Yes`, `Z.Yes && Obj.S`, `1 < 2 && 3`}},
	{ClLogic, "or_nonbool", kBool, []string{`true || 5`, `"a" || false`, `Z.No || Obj.I`}},
	{ClLogic, "not_nonbool", kAssignOnly, []string{`!5`, `!Obj.S`}},
	// ---- failing calls
	{ClCall, "unknown_fn", kCall, []string{`nofn(1)`, `nofn()`, `missing_fn(1, 2)`}},
	{ClCall, "unknown_method", kCall, []string{`Obj.NoSuch(1)`, `Obj.Nope()`}},
	{ClCall, "unknown_receiver", kCall, []string{`Nope.Do(1)`}},
	{ClCall, "panicking_fn", kCall, []string{`boom()`}},
	{ClCall, "panicking_method", kCall, []string{`Obj.Explode()`}},
	{ClCall, "too_few", kCall, []string{`two(1)`, `Obj.Inc()`, `sink()`}},
	{ClCall, "too_many", kCall, []string{`two(1, 2, 3)`, `Obj.Label(1)`}},
	{ClCall, "ill_typed", kCall, []string{`two("a", "b")`, `Obj.Inc("a")`, `two(1, true)`}},
	{ClCall, "three_unknown", kCall, []string{`Obj.Sub.NoSuch(1)`, `Obj.Sub.NoSuch()`, `Obj.Sub.Nope()`}},
	{ClCall, "three_unknown_path", kCall, []string{`Obj.NoSub.Get()`, `Nope.Sub.Get()`, `Obj.NoSub.Get(1)`}},
	{ClCall, "three_panicking", kCall, []string{`Obj.Sub.Fail()`}},
	{ClCall, "three_ill_typed", kCall, []string{`Obj.Sub.Get("a")`}},
	// ---- failing assignments
	{ClAssign, "unknown_field", kAssign, []string{`Obj.NoField = 1`, `Obj.Missing = "a"`}},
	{ClAssign, "unknown_receiver", kAssign, []string{`Nope.F = 1`}},
	{ClAssign, "unassignable_valstruct", kAssign, []string{`Val.F = 1`}},
	{ClAssign, "unassignable_scalar", kAssign, []string{`Num = 3`}},
	{ClAssign, "neg_unsigned", kAssign, []string{`Obj.U8 = 0 - 5`, `Obj.U8 = -5`}},
	{ClAssign, "wrong_type", kAssign, []string{`Obj.I = "a"`, `Obj.B = 1`, `Obj.F = "x"`, `Obj.U8 = "u"`}},
	{ClAssign, "scalar_wrongtype", kAssign, []string{`PNum = "a"`, `PNum = true`}},
	{ClAssign, "compound_missing", kAssign, []string{`nosuchvar += 1`, `nosuchvar -= 2`, `Nope.F *= 2`, `ghost /= 2`}},
	// ---- failing assignments to container elements
	{ClElemAssign, "elem_wrongtype", kAssign, []string{`Obj.M["k"] = "str"`, `Cnt["a"] = "s"`}},
	{ClElemAssign, "elem_missing", kAssign, []string{`nosuchmap["k"] = 1`}},
	{ClElemAssign, "elem_varkey_missing", kAssign, []string{`Obj.M[nosuchkey] = 1`}},
	{ClElemAssign, "elem_badindex", kAssign, []string{`Items["a"] = 1`}},
	{ClElemAssign, "elem_negindex", kAssign, []string{`Items[-1] = 2`}},
	{ClElemAssign, "elem_oob", kAssign, []string{`Items[9] = 1`}},
	{ClElemAssign, "elem_compound_missing", kAssign, []string{`nosuchmap["k"] += 1`}},
	{ClElemAssign, "elem_compound_badindex", kAssign, []string{`Items["a"] += 1`}},
	{ClElemAssign, "elem_compound_varkey", kAssign, []string{`Cnt[nosuchkey] -= 1`}},
	// ---- may-cite classes
	{ClLookup, "missing_name", kExpr, []string{`nosuchvar`, `nosuchvar + 1`, `2 * ghost`}},
	{ClLookup, "missing_receiver", kExpr, []string{`Nope.F`, `Nope.F - 1`}},
	{ClContainer, "missing_container", kExpr, []string{`nosuchmap["k"]`, `ghost[0]`}},
	{ClContainer, "missing_varkey", kExpr, []string{`Obj.M[nosuchkey]`, `Cnt[ghost]`}},
	{ClContainer, "string_index", kExpr, []string{`Items["a"]`}},
	{ClContainer, "negative_index", kExpr, []string{`Items[-1]`}},
	{ClContainer, "not_a_container", kExpr, []string{`Num["a"]`, `Num[0]`}},
	{ClContainer, "index_oob", kAssignOnly, []string{`Items[9]`}},
	{ClForRange, "not_iterable", kRange, []string{`Num`, `Obj.I`, `Z.Yes`}},
	{ClForRange, "missing_target", kRange, []string{`nosuchvar`, `ghost`}},
	{ClCond, "nonbool", kCond, []string{`5`, `Obj.S`, `"a"`, `Obj.I + 1`, `two(1, 2)`}},
	{ClLoop, "guard", kStmt, []string{`for gi = 0; gi < 1; gi += 0 { gz = 1 }`, `for gj = 5; gj > 1; gj = 5 { gz = gj }`, `for gk = 0; gk >= 0; gk += 1 { if gk > 3 { continue } }`}},
}

// class weights (must-cite classes dominate).
var classWeight = map[string]int{
	ClArith: 5, ClCmp: 3, ClLogic: 3, ClCall: 5, ClAssign: 4, ClElemAssign: 3,
	ClLookup: 2, ClContainer: 2, ClForRange: 1, ClCond: 1, ClLoop: 1,
}

var classOrder = []string{ClArith, ClCmp, ClLogic, ClCall, ClAssign, ClElemAssign, ClLookup, ClContainer, ClForRange, ClCond, ClLoop}

var byClass = func() map[string][]int {
	m := map[string][]int{}
	for i, t := range catalog {
		m[t.class] = append(m[t.class], i)
	}
	return m
}()

// Fault is one concrete faulty construct.
type Fault struct {
	Class, Variant, Kind string
	Text                 string // the alternative chosen
}

func pickFault(r *rand.Rand) Fault {
	total := 0
	for _, c := range classOrder {
		total += classWeight[c]
	}
	n := r.Intn(total)
	cls := classOrder[0]
	for _, c := range classOrder {
		if n < classWeight[c] {
			cls = c
			break
		}
		n -= classWeight[c]
	}
	idx := byClass[cls]
	t := catalog[idx[r.Intn(len(idx))]]
	return Fault{Class: t.class, Variant: t.variant, Kind: t.kind, Text: t.alts[r.Intn(len(t.alts))]}
}

// Carriers: how the faulty construct is embedded on its line.
const (
	CarPlain      = "plain"      // a one-line assignment / call statement
	CarReturn     = "return"     // return <expr>
	CarCallArg    = "callarg"    // argument of a healthy call
	CarIfCond     = "ifcond"     // condition of an if
	CarElseIfCond = "elseifcond" // condition of an else if
	CarForInit    = "forinit"    // for header, init assignment
	CarForCond    = "forcond"    // for header, condition
	CarForStep    = "forstep"    // for header, step assignment
	CarRangeHdr   = "rangehdr"   // forRange header (target)
)

func carriersFor(kind string) []string {
	switch kind {
	case kExpr, kBool, kCall:
		return []string{CarReturn, CarCallArg, CarIfCond, CarElseIfCond, CarForInit, CarForCond, CarForStep}
	case kAssign:
		return []string{CarForInit, CarForStep}
	case kCond:
		return []string{CarIfCond, CarElseIfCond, CarForCond}
	}
	return nil
}

func pickCarrier(r *rand.Rand, f Fault) string {
	switch f.Kind {
	case kRange:
		return CarRangeHdr
	case kAssignOnly, kStmt:
		return CarPlain
	case kCond:
		c := carriersFor(kCond)
		return c[r.Intn(len(c))]
	case kAssign:
		if r.Intn(100) < 80 {
			return CarPlain
		}
	default:
		if r.Intn(100) < 45 {
			return CarPlain
		}
	}
	c := carriersFor(f.Kind)
	return c[r.Intn(len(c))]
}

// condForm is the faulty construct in a boolean context.
func (f Fault) condForm(r *rand.Rand) string {
	switch f.Kind {
	case kBool, kCond:
		return f.Text
	}
	if r.Intn(2) == 0 {
		return f.Text + " > 0"
	}
	return "0 < " + f.Text
}
