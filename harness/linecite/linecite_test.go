package linecite

import (
	"math/rand"
	"strings"
	"testing"
)

// Generator self-test: with a healthy stand-in instead of the fault every text must compile and run clean,
// and the recorded line L must hold the stand-in's carrier.
func TestNoFaultTextsRunClean(t *testing.T) {
	for i := 0; i < 400; i++ {
		tx := GenNoFault(rand.New(rand.NewSource(int64(i))))
		o := Execute(tx)
		if o.CompileErr != nil || o.Panic != nil || o.Err != nil {
			t.Fatalf("seed %d: compile=%v panic=%v err=%v\n%s", i, o.CompileErr, o.Panic, o.Err, tx.Src)
		}
		lines := strings.Split(tx.Src, "\n")
		hdr := tx.Carrier == CarForInit || tx.Carrier == CarForCond || tx.Carrier == CarForStep // healthy header kept
		if tx.L < 1 || tx.L > len(lines) || (!hdr && !strings.Contains(lines[tx.L-1], tx.Fault.Text)) {
			t.Fatalf("seed %d: line %d does not hold %q\n%s", i, tx.L, tx.Fault.Text, tx.Src)
		}
	}
}

// The faulty line must hold the faulty construct, and nothing of it may be anywhere else.
func TestFaultLine(t *testing.T) {
	for i := 0; i < 2000; i++ {
		tx := Gen(rand.New(rand.NewSource(int64(i))))
		lines := strings.Split(tx.Src, "\n")
		if tx.L < 1 || tx.L > len(lines) || !strings.Contains(lines[tx.L-1], tx.Fault.Text) {
			t.Fatalf("seed %d: line %d does not hold %q\n%s", i, tx.L, tx.Fault.Text, tx.Src)
		}
	}
}

func TestCitations(t *testing.T) {
	got := Citations("line 3, column 4, code: x, line 0, column:0 Line:12 ,column liner 5, column")
	want := []int{3, 0, 12}
	if len(got) != len(want) {
		t.Fatalf("got %v", got)
	}
	for i := range want {
		if got[i] != want[i] {
			t.Fatalf("got %v", got)
		}
	}
}
