package linecite

import (
	"fmt"
	"math/rand"
	"strings"
)

// Placements: the statement kind that directly encloses the carrier line(s).
const (
	PlTop      = "top"
	PlIf       = "if"
	PlElseIf   = "elseif"
	PlElse     = "else"
	PlFor      = "for"
	PlForRange = "forrange"
	PlConc     = "conc"
	PlNested2  = "nested2"
)

var blockKinds = []string{PlIf, PlElseIf, PlElse, PlFor, PlForRange}

// Text is one generated case.
type Text struct {
	Deep  int  // number of extra nested if-blocks around the faulty construct (0 = none)
	Split bool // the faulty expression is bracketed, the opening bracket on an earlier line
	Src         string
	L           int // 1-based line of the faulty construct within Src
	Lines       int
	Fault       Fault
	Carrier     string
	Place       string // placement of the carrier (for nested2: "nested2:<outer>><inner>")
	Encl        string // enclosing kind used in keys/counters
	Must        bool
	MayPanic    bool
	FaultyRule  string
	Rules       []string
	Incremental bool
	Base        string // text compiled first when Incremental
	CRLF        bool
	NoFault     bool
}

type gen struct {
	r         *rand.Rand
	lines     []string
	nv        int
	faultLine int
	noFault   bool
}

// Gen builds the text of one case from the case PRNG only.
func Gen(r *rand.Rand) *Text { return genText(r, false) }

// GenNoFault builds the same kind of text with a healthy construct in place of the fault
// (self-test of the generator: such a text must execute without error).
func GenNoFault(r *rand.Rand) *Text { return genText(r, true) }

func genText(r *rand.Rand, noFault bool) *Text {
	g := &gen{r: r, noFault: noFault}
	t := &Text{NoFault: noFault}
	t.Fault = pickFault(r)
	t.Carrier = pickCarrier(r, t.Fault)
	if noFault {
		t.Fault = healthyStandIn(t.Fault, t.Carrier)
	}

	// placement
	places := []string{PlTop, PlTop, PlIf, PlElseIf, PlElse, PlFor, PlForRange, PlNested2, PlNested2}
	if t.Carrier == CarPlain && t.Fault.Kind != kStmt {
		places = append(places, PlConc, PlConc)
	}
	place := places[r.Intn(len(places))]
	var outer, inner string
	if place == PlNested2 {
		outer = blockKinds[r.Intn(len(blockKinds))]
		inners := blockKinds
		if t.Carrier == CarPlain && t.Fault.Kind != kStmt {
			inners = append(append([]string{}, blockKinds...), PlConc)
		}
		inner = inners[r.Intn(len(inners))]
		t.Place = PlNested2 + ":" + outer + ">" + inner
	} else {
		t.Place = place
	}
	switch t.Carrier {
	case CarPlain, CarRangeHdr:
		t.Encl = place
	default:
		t.Encl = t.Carrier
	}
	t.Must = mustCite[t.Fault.Class]
	switch t.Carrier {
	case CarForInit, CarForCond, CarForStep:
		t.Must = false // faults in a for header: "if it cites, it must be right"
	}
	t.MayPanic = t.Fault.Kind == kCond

	// rules
	nHealthy := 1 + r.Intn(3)
	pos := r.Intn(nHealthy + 1)
	words := []string{"alpha", "check", "limit", "score", "risk", "quota"}
	g.noise(2)
	if r.Intn(60) == 0 {
		// a very long text: the faulty construct sits beyond line 65535 (a position stored in 16 bits wraps)
		pad := 65400 + r.Intn(3000)
		for i := 0; i < pad; i++ {
			g.lines = append(g.lines, "")
		}
	}
	for i := 0; i <= nHealthy; i++ {
		name := fmt.Sprintf("%s_%d", words[r.Intn(len(words))], i)
		switch r.Intn(6) {
		case 0:
			name = fmt.Sprintf("%s %d", words[r.Intn(len(words))], i)
		case 1:
			name = fmt.Sprintf("%s-%d.x", words[r.Intn(len(words))], i)
		}
		t.Rules = append(t.Rules, name)
		if i == pos {
			t.FaultyRule = name
			g.ruleHeader(name)
			for n := r.Intn(3); n > 0; n-- {
				g.healthy(1, true)
			}
			emit := func(depth int) { g.carrier(depth, t) }
			if place != PlConc && !(place == PlNested2 && inner == PlConc) && r.Intn(25) == 0 {
				// the construct sits DEEP inside nested blocks (the stack is deep when it fails)
				t.Deep = 12 + r.Intn(9)
				base := emit
				emit = func(depth int) {
					for n := 0; n < t.Deep; n++ {
						g.add(depth+n, "if "+g.trueCond()+" {")
					}
					base(depth + t.Deep)
					for n := t.Deep - 1; n >= 0; n-- {
						g.add(depth+n, "}")
					}
				}
			}
			if place == PlNested2 {
				g.wrap(outer, 1, func(d int) { g.wrap(inner, d, emit) })
			} else {
				g.wrap(place, 1, emit)
			}
			if !(place == PlTop && t.Carrier == CarReturn) && r.Intn(2) == 0 {
				g.healthy(1, true)
			}
			g.ruleEnd()
		} else {
			g.ruleHeader(name)
			for n := 1 + r.Intn(3); n > 0; n-- {
				g.healthy(1, true)
			}
			if i < pos && !noFault && r.Intn(3) == 0 {
				// a decoy: the very same faulty text on an EARLIER line, in a branch that is never
				// taken - a position that is cached per expression text would cite this line
				g.decoy(t.Fault)
			}
			if r.Intn(3) == 0 {
				g.stmt(1, "return", g.intExpr())
			}
			g.ruleEnd()
		}
		g.noise(2)
	}
	t.L = g.faultLine
	t.Lines = len(g.lines)
	t.Src = strings.Join(g.lines, "\n") + "\n"
	if r.Intn(10) == 0 {
		t.CRLF = true
		t.Src = strings.ReplaceAll(t.Src, "\n", "\r\n")
	}
	if r.Intn(2) == 0 {
		t.Incremental = true
		b := &gen{r: r}
		b.noise(3)
		b.ruleHeader("base_rule")
		b.healthy(1, false)
		b.ruleEnd()
		if r.Intn(2) == 0 {
			b.noise(2)
			b.ruleHeader("base_rule_2")
			b.healthy(1, false)
			b.ruleEnd()
		}
		t.Base = strings.Join(b.lines, "\n") + "\n"
	}
	return t
}

// decoy emits `if <false> { <the faulty text> }` (never executed).
func (g *gen) decoy(f Fault) {
	var body string
	switch f.Kind {
	case kAssign, kAssignOnly, kStmt:
		body = f.Text
		if f.Kind == kAssignOnly {
			body = g.newVar("dq") + " = " + f.Text
		}
	case kCall:
		body = f.Text
	case kExpr, kBool:
		body = g.newVar("dq") + " = " + f.Text
	default:
		return
	}
	g.add(1, "if "+g.falseCond()+" {")
	g.add(2, body)
	g.add(1, "}")
}

// healthyStandIn replaces a fault by a healthy construct of the same syntactic kind.
func healthyStandIn(f Fault, carrier string) Fault {
	h := f
	switch f.Kind {
	case kExpr, kAssignOnly:
		h.Text = "1 + 2"
	case kBool, kCond:
		h.Text = "1 + 2"
		if carrier == CarIfCond || carrier == CarElseIfCond || carrier == CarForCond {
			h.Text = "1 < 2"
		}
	case kCall:
		h.Text = "two(1, 2)"
	case kAssign, kStmt:
		h.Text = "Obj.I = 3"
	case kRange:
		h.Text = "Items"
	}
	return h
}

// ---------------------------------------------------------------- line buffer

func (g *gen) indent(depth int) string {
	switch g.r.Intn(4) {
	case 0:
		return strings.Repeat("\t", depth)
	case 1:
		return strings.Repeat("  ", depth)
	case 2:
		return strings.Repeat("    ", depth)
	}
	return strings.Repeat(" ", g.r.Intn(9))
}

// add appends one source line (s may contain a newline inside a string literal) and returns
// the 1-based number of its first physical line.
func (g *gen) add(depth int, s string) int {
	first := len(g.lines) + 1
	parts := strings.Split(s, "\n")
	parts[0] = g.indent(depth) + parts[0]
	if g.r.Intn(12) == 0 {
		parts[len(parts)-1] += " // " + g.commentText()
	}
	g.lines = append(g.lines, parts...)
	return first
}

func (g *gen) commentText() string {
	c := []string{"note", "line 99, column 3", "TODO check", "x = 1 / 0", "rule \"ghost\" begin end", "see line:7, column 1", ""}
	return c[g.r.Intn(len(c))]
}

// noise appends up to max blank / comment lines.
func (g *gen) noise(max int) {
	if g.r.Intn(2) == 0 {
		return
	}
	for n := 1 + g.r.Intn(max); n > 0; n-- {
		switch g.r.Intn(3) {
		case 0:
			g.lines = append(g.lines, "")
		case 1:
			g.lines = append(g.lines, strings.Repeat(" ", g.r.Intn(5))+"// "+g.commentText())
		default:
			g.lines = append(g.lines, strings.Repeat(" ", g.r.Intn(4)))
		}
	}
}

// stmt emits a healthy statement given as token groups; sometimes spread over several lines.
func (g *gen) stmt(depth int, groups ...string) {
	g.noise(1)
	if len(groups) > 1 && g.r.Intn(4) == 0 {
		for i, s := range groups {
			d := depth
			if i > 0 {
				d++
			}
			g.add(d, s)
			if g.r.Intn(6) == 0 {
				g.noise(1)
			}
		}
		return
	}
	g.add(depth, strings.Join(groups, " "))
}

func (g *gen) newVar(prefix string) string {
	g.nv++
	return fmt.Sprintf("%s%d", prefix, g.nv)
}

func (g *gen) pick(s ...string) string { return s[g.r.Intn(len(s))] }

func (g *gen) intExpr() string {
	return g.pick(`1 + 2`, `Obj.I * 2`, `two(1, 2) + 3`, `Obj.Inc(1)`, `Z.Five - 1`, `(1 + 2) * 3`,
		`Obj.Sub.Get(1)`, `Items[0] + 1`, `Cnt["a"]`, `Obj.M["k"]`, `8 / 2`, `sink(4)`)
}

func (g *gen) trueCond() string {
	return g.pick(`Z.Zero == 0`, `1 < 2`, `Z.Yes`, `Z.Five > 4`, `Z.Yes == true`, `!Z.No`, `Z.Yes && 1 < 2`, `"a" != "b"`)
}

func (g *gen) falseCond() string {
	return g.pick(`Z.Zero > 0`, `1 > 2`, `Z.No`, `Z.Five < 0`, `!Z.Yes`, `Z.No || 2 < 1`, `"a" == "b"`)
}

// ---------------------------------------------------------------- healthy statements

func (g *gen) healthySimple(depth int) {
	switch g.r.Intn(10) {
	case 0, 1, 2:
		e := g.intExpr()
		if i := strings.Index(e, " + "); i > 0 && g.r.Intn(2) == 0 {
			g.stmt(depth, g.newVar("h")+" =", e[:i+2], e[i+3:])
		} else {
			g.stmt(depth, g.newVar("h")+" =", e)
		}
	case 3, 4:
		g.stmt(depth, g.pick(`Obj.I = Obj.I + 1`, `Obj.S = "a" + "b"`, `Obj.F = 1.5 * 2`, `Obj.U8 = 7`,
			`Obj.M["k"] = 4`, `Obj.B = 1 < 2`, `PNum = 5`, `Cnt["a"] = 3`, `Obj.I += 2`))
	case 5, 6:
		g.stmt(depth, g.pick(`two(1, 2)`, `Obj.Inc(2)`, `sink(3)`, `Obj.Sub.Get(1)`, `Obj.Label()`))
	case 7:
		g.stmt(depth, "two(", "1,", "2)")
	case 8:
		// a string literal spanning two physical lines
		g.stmt(depth, g.newVar("hs")+" =", "\"ab\ncd\"")
	default:
		g.stmt(depth, g.newVar("hb")+" =", g.trueCond())
	}
}

func (g *gen) healthy(depth int, blocks bool) {
	if !blocks || depth >= 3 || g.r.Intn(10) < 6 {
		g.healthySimple(depth)
		return
	}
	kinds := []string{PlIf, PlElseIf, PlElse, PlFor, PlForRange, PlConc}
	g.wrap(kinds[g.r.Intn(len(kinds))], depth, func(d int) { g.healthySimple(d) })
}

func (g *gen) concMember(depth int) {
	switch g.r.Intn(3) {
	case 0:
		g.stmt(depth, g.newVar("c")+" =", g.pick(`1 + 2`, `two(1, 2)`, `Z.Five * 2`))
	case 1:
		g.stmt(depth, g.pick(`two(1, 2)`, `sink(3)`))
	default:
		g.stmt(depth, g.newVar("c")+" =", g.pick(`"x"`, `7`, `1 < 2`))
	}
}

// ---------------------------------------------------------------- enclosing statements

// wrap emits an enclosing statement of the given kind whose header is on its own (earlier)
// line(s) and calls inner for the enclosed line(s).
func (g *gen) wrap(kind string, depth int, inner func(depth int)) {
	pre := func() {
		if g.r.Intn(3) == 0 {
			g.healthySimple(depth + 1)
		}
	}
	switch kind {
	case PlTop:
		inner(depth)
	case PlIf:
		g.noise(1)
		g.add(depth, "if "+g.trueCond()+" {")
		pre()
		inner(depth + 1)
		if g.r.Intn(3) == 0 {
			g.add(depth, "} else {")
			g.healthySimple(depth + 1)
		}
		g.add(depth, "}")
	case PlElseIf:
		g.noise(1)
		g.add(depth, "if "+g.falseCond()+" {")
		g.healthySimple(depth + 1)
		if g.r.Intn(3) == 0 {
			g.add(depth, "} else if "+g.falseCond()+" {")
			g.healthySimple(depth + 1)
		}
		if g.r.Intn(2) == 0 {
			g.add(depth, "} else if "+g.trueCond()+" {")
		} else {
			g.add(depth, "}")
			g.add(depth, "else if "+g.trueCond())
			g.add(depth, "{")
		}
		pre()
		inner(depth + 1)
		if g.r.Intn(3) == 0 {
			g.add(depth, "} else {")
			g.healthySimple(depth + 1)
		}
		g.add(depth, "}")
	case PlElse:
		g.noise(1)
		g.add(depth, "if "+g.falseCond()+" {")
		g.healthySimple(depth + 1)
		if g.r.Intn(3) == 0 {
			g.add(depth, "} else if "+g.falseCond()+" {")
			g.healthySimple(depth + 1)
		}
		if g.r.Intn(2) == 0 {
			g.add(depth, "} else {")
		} else {
			g.add(depth, "}")
			g.add(depth, "else")
			g.add(depth, "{")
		}
		pre()
		inner(depth + 1)
		g.add(depth, "}")
	case PlFor:
		g.noise(1)
		v := g.newVar("i")
		if g.r.Intn(2) == 0 {
			g.add(depth, fmt.Sprintf("for %s = 0; %s < 2; %s += 1 {", v, v, v))
		} else {
			g.add(depth, fmt.Sprintf("for %s = 0;", v))
			g.add(depth+1, fmt.Sprintf("%s < 2;", v))
			g.add(depth+1, fmt.Sprintf("%s += 1 {", v))
		}
		pre()
		inner(depth + 1)
		g.add(depth, "}")
	case PlForRange:
		g.noise(1)
		g.add(depth, fmt.Sprintf("forRange %s := %s {", g.newVar("k"), g.pick("Items", "Cnt", "Obj.M")))
		pre()
		inner(depth + 1)
		g.add(depth, "}")
	case PlConc:
		g.noise(1)
		if g.r.Intn(2) == 0 {
			g.add(depth, "conc {")
		} else {
			g.add(depth, "conc")
			g.add(depth, "{")
		}
		for n := g.r.Intn(3); n > 0; n-- {
			g.concMember(depth + 1)
		}
		inner(depth + 1)
		for n := g.r.Intn(2); n > 0; n-- {
			g.concMember(depth + 1)
		}
		g.add(depth, "}")
	}
}

// ---------------------------------------------------------------- carriers

// fault emits the line that holds the faulty construct (never split, nothing else on it that can fail).
func (g *gen) fault(depth int, s string) {
	g.noise(1)
	g.faultLine = g.add(depth, s)
}

func (g *gen) carrier(depth int, t *Text) {
	f := t.Fault
	r := g.r
	switch t.Carrier {
	case CarPlain:
		switch f.Kind {
		case kAssign, kStmt:
			g.fault(depth, f.Text)
		case kCall:
			if r.Intn(2) == 0 {
				g.fault(depth, f.Text)
			} else {
				g.fault(depth, g.newVar("f")+" = "+f.Text)
			}
		default:
			if f.Kind == kExpr && !g.noFault && r.Intn(6) == 0 {
				// the faulty expression sits in brackets that were opened on an EARLIER line: the construct that
				// fails is still on its own line
				t.Split = true
				g.add(depth, g.newVar("f")+" = 1 + (")
				g.fault(depth+1, f.Text)
				g.add(depth, ")")
			} else {
				g.fault(depth, g.newVar("f")+" = "+f.Text)
			}
		}
	case CarReturn:
		if r.Intn(2) == 0 {
			g.fault(depth, "return "+f.Text)
		} else {
			g.add(depth, "return")
			g.fault(depth+1, f.Text)
		}
	case CarCallArg:
		type wr struct {
			head string
			args []string // "%" marks the faulty argument
		}
		ws := []wr{{"sink(", []string{"%"}}, {"two(", []string{"%", "1"}}, {"two(", []string{"1", "%"}}, {"Obj.Inc(", []string{"%"}},
			{g.newVar("f") + " = two(", []string{"%", "2"}}, {"Obj.Sub.Get(", []string{"%"}}, {g.newVar("f") + " = 1 + sink(", []string{"%"}}}
		w := ws[r.Intn(len(ws))]
		if r.Intn(2) == 0 {
			args := make([]string, len(w.args))
			for i, a := range w.args {
				args[i] = strings.ReplaceAll(a, "%", f.Text)
			}
			g.fault(depth, w.head+strings.Join(args, ", ")+")")
		} else {
			g.noise(1)
			g.add(depth, w.head)
			for i, a := range w.args {
				sep := ","
				if i == len(w.args)-1 {
					sep = ""
				}
				if a == "%" {
					g.fault(depth+1, f.Text+sep)
				} else {
					g.add(depth+1, a+sep)
				}
			}
			g.add(depth, ")")
		}
	case CarIfCond:
		c := f.condForm(r)
		if r.Intn(2) == 0 {
			g.fault(depth, "if "+c+" {")
		} else {
			g.noise(1)
			g.add(depth, "if")
			g.fault(depth+1, c)
			g.add(depth, "{")
		}
		g.healthySimple(depth + 1)
		if r.Intn(3) == 0 {
			g.add(depth, "} else {")
			g.healthySimple(depth + 1)
		}
		g.add(depth, "}")
	case CarElseIfCond:
		c := f.condForm(r)
		g.noise(1)
		g.add(depth, "if "+g.falseCond()+" {")
		g.healthySimple(depth + 1)
		switch r.Intn(3) {
		case 0:
			g.fault(depth, "} else if "+c+" {")
		case 1:
			g.add(depth, "}")
			g.fault(depth, "else if "+c+" {")
		default:
			g.add(depth, "} else if")
			g.fault(depth+1, c)
			g.add(depth, "{")
		}
		g.healthySimple(depth + 1)
		g.add(depth, "}")
	case CarForInit, CarForCond, CarForStep:
		v := g.newVar("fi")
		init, cond, step := v+" = 0", v+" < 2", v+" += 1"
		asg := f.Text
		if f.Kind != kAssign {
			asg = v + " = " + f.Text
		}
		switch {
		case g.noFault:
			// generator self-test: keep the healthy header
		case t.Carrier == CarForInit:
			init = asg
		case t.Carrier == CarForCond:
			cond = f.condForm(r)
		case t.Carrier == CarForStep:
			step = asg
		}
		if r.Intn(2) == 0 {
			g.fault(depth, "for "+init+"; "+cond+"; "+step+" {")
		} else {
			g.noise(1)
			parts := []string{"for " + init + ";", cond + ";", step + " {"}
			which := map[string]int{CarForInit: 0, CarForCond: 1, CarForStep: 2}[t.Carrier]
			for i, p := range parts {
				d := depth
				if i > 0 {
					d++
				}
				if i == which {
					g.fault(d, p)
				} else {
					g.add(d, p)
				}
			}
		}
		g.healthySimple(depth + 1)
		g.add(depth, "}")
	case CarRangeHdr:
		g.fault(depth, "forRange "+g.newVar("fk")+" := "+f.Text+" {")
		g.healthySimple(depth + 1)
		g.add(depth, "}")
	}
}

// ---------------------------------------------------------------- rule frame

func (g *gen) ruleHeader(name string) {
	r := g.r
	q := func(s string) string { return `"` + s + `"` }
	desc := ""
	if r.Intn(3) > 0 {
		desc = " " + q(g.pick("desc", "checks things", "line 5, column 5", "d"))
	}
	sal := ""
	if r.Intn(3) > 0 {
		sal = fmt.Sprintf(" salience %d", r.Intn(11)-5)
	}
	switch r.Intn(4) {
	case 0:
		g.add(0, "rule "+q(name)+desc+sal+" begin")
	case 1:
		g.add(0, "rule "+q(name)+desc+sal)
		g.noise(1)
		g.add(0, "begin")
	case 2:
		g.add(0, "rule "+q(name))
		if desc != "" {
			g.add(1, strings.TrimSpace(desc))
		}
		if sal != "" {
			g.add(1, strings.TrimSpace(sal))
		}
		g.add(0, "BEGIN")
	default:
		g.add(0, "Rule "+q(name)+desc+sal)
		g.add(0, "begin")
	}
}

func (g *gen) ruleEnd() {
	g.noise(1)
	g.add(0, g.pick("end", "end", "END"))
}

// LBucket classifies the faulty line number for the distinct-case signature.
func LBucket(l int) string {
	switch {
	case l <= 5:
		return "L<=5"
	case l <= 10:
		return "L<=10"
	case l <= 20:
		return "L<=20"
	case l <= 40:
		return "L<=40"
	}
	return "L>40"
}
