package linecite

import (
	"fmt"
	"regexp"
	"strconv"

	"github.com/bilibili/gengine/builder"
	"github.com/bilibili/gengine/context"
	"github.com/bilibili/gengine/engine"

	"verifharness/fw"
	"verifharness/trace"
)

// citeRe recognises a source-position citation inside an error message
// ("line 3, column 4", "line 3, column:4", "line:3,column ...").
var citeRe = regexp.MustCompile(`(?i)line\s*:?\s*(\d+)\s*,\s*column`)

// ruleRe recognises the per-rule prefix the engine puts in front of a rule's error.
var ruleRe = regexp.MustCompile(`rule: "([^"]*)" executed`)

// Citations returns every line number cited in msg, in order of appearance.
func Citations(msg string) []int {
	var out []int
	for _, m := range citeRe.FindAllStringSubmatch(msg, -1) {
		n, err := strconv.Atoi(m[1])
		if err != nil {
			n = -1
		}
		out = append(out, n)
	}
	return out
}

// Outcome of executing one text.
type Outcome struct {
	CompileErr error
	Panic      interface{}
	Err        error
}

// Execute compiles t (fresh data, fresh builder, fresh engine) and runs every rule with
// continue-on-error.
func Execute(t *Text) (o Outcome) {
	dc := context.NewDataContext()
	for name, v := range NewAPI() {
		dc.Add(name, v)
	}
	rb := builder.NewRuleBuilder(dc)
	o.CompileErr = trace.CompileLocked(func() error {
		if Redelivered(t) {
			// the same rules were delivered before, at another place of an earlier text (five lines further
			// down); the text compiled LAST is the one whose lines must be cited
			if err := rb.BuildRuleFromString("\n// an earlier delivery\n\n\n\n" + t.Src); err != nil {
				return fmt.Errorf("earlier delivery: %v", err)
			}
			return rb.BuildRuleWithIncremental(t.Src)
		}
		if t.Incremental {
			if err := rb.BuildRuleFromString(t.Base); err != nil {
				return fmt.Errorf("base text: %v", err)
			}
			return rb.BuildRuleWithIncremental(t.Src)
		}
		return rb.BuildRuleFromString(t.Src)
	})
	if o.CompileErr != nil {
		return o
	}
	func() {
		defer func() {
			if r := recover(); r != nil {
				o.Panic = r
			}
		}()
		o.Err = engine.NewGengine().Execute(rb, true)
	}()
	return o
}

// Redelivered: one text in five is delivered twice (see Execute).
func Redelivered(t *Text) bool { return len(t.Src)%5 == 0 }

// Verdict of the oracle for one executed text.
type Verdict struct {
	Kind      string // "cited_right" | "no_citation_allowed" | "nocite" | "wrongline" | "inconclusive"
	Why       string
	Citations []int
}

// Judge applies the C20 oracle: every citation must equal t.L; must-cite classes need at least one.
func Judge(t *Text, o Outcome) Verdict {
	if o.CompileErr != nil {
		return Verdict{Kind: "inconclusive", Why: "generated text did not compile (harness bug): " + clip(o.CompileErr.Error(), 200)}
	}
	if o.Panic != nil {
		return Verdict{Kind: "inconclusive", Why: fmt.Sprintf("panicked: belongs to C09 (%s/%s in %s)", t.Fault.Class, t.Fault.Variant, t.Encl)}
	}
	if o.Err == nil {
		return Verdict{Kind: "inconclusive", Why: fmt.Sprintf("faulty rule succeeded (%s/%s %q in %s)", t.Fault.Class, t.Fault.Variant, t.Fault.Text, t.Encl)}
	}
	msg := o.Err.Error()
	names := ruleRe.FindAllStringSubmatch(msg, -1)
	if len(names) == 0 {
		return Verdict{Kind: "inconclusive", Why: "no rule name in the error: " + clip(msg, 120)}
	}
	for _, n := range names {
		if n[1] != t.FaultyRule {
			return Verdict{Kind: "inconclusive", Why: fmt.Sprintf("a healthy rule failed (harness bug): %q: %s", n[1], clip(msg, 200))}
		}
	}
	if len(names) != 1 {
		return Verdict{Kind: "inconclusive", Why: "faulty rule reported more than once: " + clip(msg, 120)}
	}
	cites := Citations(msg)
	for _, c := range cites {
		if c != t.L {
			return Verdict{Kind: "wrongline", Citations: cites}
		}
	}
	if len(cites) == 0 {
		if t.Must {
			return Verdict{Kind: "nocite"}
		}
		return Verdict{Kind: "no_citation_allowed"}
	}
	return Verdict{Kind: "cited_right", Citations: cites}
}

func clip(s string, n int) string {
	if len(s) > n {
		return s[:n] + "..."
	}
	return s
}

// Run is the C20 family: one case = one text.
func Run(k *fw.Case) {
	t := Gen(k.Rng)
	o := Execute(t)
	k.Eval(1)
	v := Judge(t, o)
	if k.Replay {
		fmt.Printf("---- text (L=%d, %s/%s in %s, carrier %s, place %s, incremental=%v)\n%s---- outcome: err=%v panic=%v compile=%v\n---- verdict: %+v\n",
			t.L, t.Fault.Class, t.Fault.Variant, t.Encl, t.Carrier, t.Place, t.Incremental, t.Src, o.Err, o.Panic, o.CompileErr, v)
	}
	switch v.Kind {
	case "inconclusive":
		switch {
		case o.CompileErr != nil:
			k.Count("compile_failed", 1)
		case o.Panic != nil:
			k.Count("panicked", 1)
		case o.Err == nil:
			k.Count("fault_did_not_fail", 1)
		default:
			k.Count("other_rule_failed", 1)
		}
		k.Inconclusive(v.Why)
		return
	}
	k.Count("class_"+t.Fault.Class, 1)
	k.Count("encl_"+t.Encl, 1)
	if t.Incremental {
		k.Count("installed_incremental", 1)
	}
	if Redelivered(t) {
		k.Count("delivered_twice_at_different_lines", 1)
	}
	if t.Deep > 0 {
		k.Count("deeply_nested_constructs", 1)
	}
	if t.Split {
		k.Count("bracket_opened_on_an_earlier_line", 1)
	}
	if t.CRLF {
		k.Count("crlf_texts", 1)
	}
	if t.Must {
		k.Count("must_cite_cases", 1)
	}
	k.Max("max_L", int64(t.L))
	k.Max("max_citations_in_one_message", int64(len(v.Citations)))
	k.Distinct(t.Fault.Class, "|", t.Fault.Variant, "|", t.Encl, "|", t.Carrier, "|", t.Place, "|", LBucket(t.L), "|", t.Incremental)
	msg := o.Err.Error()
	switch v.Kind {
	case "cited_right":
		k.Count("cited_right", 1)
		if len(v.Citations) > 1 {
			k.Count("multi_citation_messages", 1)
		}
	case "no_citation_allowed":
		k.Count("no_citation_allowed", 1)
	case "nocite", "wrongline":
		what := fmt.Sprintf("%s/%s %q (carrier %s, place %s): expected line %d, cited %v", t.Fault.Class, t.Fault.Variant, t.Fault.Text,
			t.Carrier, t.Place, t.L, v.Citations)
		if v.Kind == "nocite" {
			what = fmt.Sprintf("%s/%s %q (carrier %s, place %s): no position cited, expected line %d", t.Fault.Class, t.Fault.Variant,
				t.Fault.Text, t.Carrier, t.Place, t.L)
		}
		k.Violate(v.Kind+"/"+t.Fault.Class+"/"+t.Encl, what, map[string]interface{}{
			"text": t.Src, "base_text": t.Base, "incremental": t.Incremental, "delivered_twice": Redelivered(t), "L": t.L, "class": t.Fault.Class, "variant": t.Fault.Variant,
			"construct": t.Fault.Text, "enclosing": t.Encl, "carrier": t.Carrier, "place": t.Place, "citations": v.Citations,
			"error": clip(msg, 400),
		})
	}
	k.Sample(map[string]interface{}{"text": t.Src, "L": t.L, "class": t.Fault.Class, "variant": t.Fault.Variant, "enclosing": t.Encl,
		"incremental": t.Incremental, "verdict": v.Kind, "error": clip(msg, 200)})
}
