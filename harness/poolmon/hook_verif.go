//go:build verif

package poolmon

import "github.com/bilibili/gengine/engine"

func init() {
	engine.VerifHook = dispatch
	hooksLinked = true
}
