package poolmon

import (
	"fmt"
	"math"
	"math/rand"
	"runtime"
	"sort"
	"sync"
	"sync/atomic"
	"time"

	"github.com/bilibili/gengine/engine"
	"verifharness/fw"
	"verifharness/trace"
)

// Req / Resp / Key are the request-scoped objects injected by every storm request.
type Req struct {
	Id       int64
	Fail     bool
	Boom     bool
	Zero     int64
	HoldUs   int64
	List     []int64          // Id, Id+1, Id+2
	Fail2    bool             // a member of q4's conc block fails
	Dirty    bool             // rule qd assigns a local and then faults
	CallData bool             // rule qx calls the injected object Req as if it were a function (a rule error like any other)
	KeyN     int64            // Id % 7: the key under which ITab holds Id
	ITab     map[int32]int64  // read as Req.ITab[kn] with the int64 local kn (the key is converted to the map's key type)
	Tab      map[string]int64 // {"k": Id}: read with a string-literal key and with a variable key
}

type Resp struct {
	Token int64
	Out1  int64
	Out2  int64
	Out3  int64
	Out4  int64
	Sum3  int64 // forRange + for accumulation over Req.List
	Grade int64 // if / else-if / else chain
	Mix   int64 // call with three arguments, the second one slow
	C1    int64 // conc block members
	C2    int64
	Seen  int64 // must stay 0: rule ql reads a local it never assigned
	Tw    int64 // Req.Twice(): a method of the request's own object
	MV    int64 // Req.Tab["k"] + Req.Tab[kv]: map element reads on request data
	MV2   int64 // Req.ITab[kn]
}

type Key struct{ Id int64 }

// ownerMark is the key under which every caller marks the result map it received.
const ownerMark = "\x00owner"

// apiKeyId identifies the pool's own object registered under the name k4.
const apiKeyId = -1

// poolsOwn: probe rule p4 read the pool's own k4 (not the data of any request).
func poolsOwn(name string, v interface{}) bool {
	return name == "p4" && v == interface{}(int64(apiKeyId))
}

// GetId is called by the probe rules p2 / p4 (a method of a request-scoped object).
func (k *Key) GetId() int64 { return k.Id }

// Twice is a method of the request object itself.
func (r *Req) Twice() int64 { return 2 * r.Id }

// The storm rules exercise every statement kind on request data, because all pool instances
// (and all concurrent requests) execute the SAME syntax tree: per-execution state kept in a
// tree node (an iterator, an argument buffer, an error list) shows up as cross-talk here.
const stormRules = `
rule "q1" "gate rule" salience 40
begin
  obs(Req.Id, Resp.Token)
  gate(Req.Id, Req.HoldUs)
  if Req.Fail {
    zz = 1 / Req.Zero
  }
  Resp.Out1 = Req.Id
  return Req.Id
end
rule "q2" salience 30
begin
  obs(Req.Id, Resp.Token)
  if Req.Boom {
    boom(Req.Id)
  }
  Resp.Mix = mix(Req.Id, pause(Req.Id), Req.Id * 2)
  Resp.Out2 = Req.Id
  return Req.Id
end
rule "q3" salience 20
begin
  obs(Req.Id, Resp.Token)
  acc = 0
  forRange k := Req.List {
    if k == 1 {
      continue
    }
    acc = acc + Req.List[k]
  }
  for i = 0; i < 9; i += 1 {
    if i == 3 {
      break
    }
    acc = acc + i
  }
  Resp.Sum3 = acc
  if Req.Id < 0 {
    Resp.Grade = 1
  } else if Req.Id > 0 {
    Resp.Grade = 2
  } else {
    Resp.Grade = 3
  }
  Resp.Tw = Req.Twice()
  kv = "k"
  Resp.MV = Req.Tab["k"] + Req.Tab[kv]
  kn = Req.KeyN
  msum = 0
  for mi = 0; mi < 40; mi += 1 {
    msum = msum + Req.ITab[kn]
  }
  Resp.MV2 = msum
  Resp.Out3 = Req.Id
  return Req.Id
end
rule "q4" salience 10
begin
  conc {
    Resp.C1 = Req.Id
    Resp.C2 = Req.Id + 1
    cfail(Req.Fail2)
    obs(slow(Req.Id), Resp.Token)
  }
  Resp.Out4 = Req.Id
  return Req.Id
end
rule "p1" salience 5 begin return k1.Id end
rule "p2" salience 4 begin return k2.GetId() end
rule "p3" salience 3 begin return k3.Id end
rule "p4" salience 2 begin return k4.GetId() end
rule "qd" salience 1
begin
  if Req.Dirty {
    leak = Req.Id
    if leak {
      zz = 1
    }
  }
end
rule "ql" salience 0
begin
  Resp.Seen = leak
end
rule "qx" salience -1
begin
  if Req.CallData {
    Req()
  }
end
`

var stormNames = []string{"q1", "q2", "q3", "q4", "p1", "p2", "p3", "p4", "qd", "ql", "qx"}

// Gate counts rule bodies that are inside it and can hold them.
type Gate struct {
	inside     int32
	maxInside  int32
	blocking   int32
	mu         sync.Mutex
	release    chan struct{}
	single     map[int64]chan struct{} // per-request release (ReleaseOne)
	overlapped int64
	entered    int64
}

func NewGate() *Gate { return &Gate{release: make(chan struct{})} }

func (g *Gate) Enter(id int64, holdUs int64) {
	n := atomic.AddInt32(&g.inside, 1)
	atomic.AddInt64(&g.entered, 1)
	for {
		m := atomic.LoadInt32(&g.maxInside)
		if n <= m || atomic.CompareAndSwapInt32(&g.maxInside, m, n) {
			break
		}
	}
	if n > 1 {
		atomic.AddInt64(&g.overlapped, 1)
	}
	if atomic.LoadInt32(&g.blocking) == 1 {
		g.mu.Lock()
		ch := g.release
		if g.single == nil {
			g.single = map[int64]chan struct{}{}
		}
		one := g.single[id]
		if one == nil {
			one = make(chan struct{})
			g.single[id] = one
		}
		g.mu.Unlock()
		select {
		case <-ch:
		case <-one:
		}
	} else if holdUs > 0 {
		time.Sleep(time.Duration(holdUs) * time.Microsecond)
	} else {
		runtime.Gosched()
	}
	atomic.AddInt32(&g.inside, -1)
}

func (g *Gate) Block() {
	g.mu.Lock()
	g.release = make(chan struct{})
	g.mu.Unlock()
	atomic.StoreInt32(&g.blocking, 1)
}

func (g *Gate) Release() {
	atomic.StoreInt32(&g.blocking, 0)
	g.mu.Lock()
	close(g.release)
	g.mu.Unlock()
}

func (g *Gate) Inside() int { return int(atomic.LoadInt32(&g.inside)) }

// ReleaseOne lets exactly the request with this id leave the gate.
func (g *Gate) ReleaseOne(id int64) {
	g.mu.Lock()
	if g.single == nil {
		g.single = map[int64]chan struct{}{}
	}
	one := g.single[id]
	if one == nil {
		one = make(chan struct{})
		g.single[id] = one
	}
	g.mu.Unlock()
	select {
	case <-one:
	default:
		close(one)
	}
}

// Finding of a storm; Class "iso" belongs to C06, "cap" to C17.
type StormFinding struct {
	Class string
	Key   string
	What  string
	Extra interface{}
}

type done struct {
	id       int64
	call     trace.Call
	injected map[string]bool
	res      map[string]interface{}
	snap     map[string]interface{}
	resp     *Resp
	err      error
	pan      interface{}
	callSeq  int64
	retSeq   int64
	healthy  bool
	fail2    bool
}

// Storm is one pool scenario.
type Storm struct {
	putBarrier, putArrived int32 // rendezvous of hand-backs at the pool.put.scheduled hook point
	k                      *fw.Case
	r                      *rand.Rand
	min, max               int64
	pool                   *engine.GenginePool
	t                      *trace.Target
	gate                   *Gate
	shadow                 *Shadow
	seq                    int64
	nextID                 int64
	mu                     sync.Mutex
	findings               []StormFinding
	dones                  []*done
	obsCalls               int64
	faults                 bool     // set during the storm phase: requests may carry Fail2 / Dirty
	goidReq                sync.Map // goroutine id -> request id (only to learn which instance a request got)
	reqTag                 sync.Map // request id -> instance tag
}

// Hook feeds the shadow and remembers which instance the calling request was given.
func (s *Storm) Hook(point string, tag int64) {
	if point == "pool.put.scheduled" {
		// rendezvous rounds: the hand-backs of one round leave this point together (or after 2 ms), so that
		// what follows it runs on several cores within the same nanoseconds; nothing is decided here
		if n := atomic.LoadInt32(&s.putBarrier); n > 0 {
			arrived := atomic.AddInt32(&s.putArrived, 1)
			deadline := time.Now().Add(2 * time.Millisecond)
			for arrived < n && time.Now().Before(deadline) {
				arrived = atomic.LoadInt32(&s.putArrived)
			}
		}
	}
	if point == "pool.get.locked" {
		if id, ok := s.goidReq.Load(goid()); ok {
			s.reqTag.Store(id, tag)
		}
	}
	s.shadow.Hook(point, tag)
}

func (s *Storm) find(class, key, what string, extra interface{}) {
	s.mu.Lock()
	if len(s.findings) < 50 {
		s.findings = append(s.findings, StormFinding{class, key, what, extra})
	}
	s.mu.Unlock()
}

var poolSizes = [][2]int64{{1, 2}, {1, 3}, {2, 3}, {2, 4}, {3, 5}, {4, 8}, {1, 2}, {2, 4}}

func tokenOf(id int64) int64 { return id*7 + 3 }

func NewStorm(k *fw.Case, jitter bool) (*Storm, error) {
	r := k.Rng
	sz := poolSizes[r.Intn(len(poolSizes))]
	s := &Storm{k: k, r: r, min: sz[0], max: sz[1], gate: NewGate(), shadow: NewShadow()}
	if jitter {
		l := &lcg{s: uint64(r.Int63())}
		s.shadow.Jitter = func(point string) {
			if point == "pool.cleanup" {
				// between the end of a request's rules and the removal of its data: on correct code the
				// instance is still exclusively held, so a delay here explores nothing; if the instance
				// were handed back first, this is where the next request would get in
				if l.next()%3 == 0 {
					time.Sleep(time.Duration(50+l.next()%350) * time.Microsecond)
				}
				return
			}
			switch l.next() % 6 {
			case 0:
				runtime.Gosched()
			case 1:
				time.Sleep(time.Duration(l.next()%150) * time.Microsecond)
			}
		}
	}
	SetSink(s)
	apis := map[string]interface{}{
		"gate": s.gate.Enter,
		"obs": func(id, token int64) {
			atomic.AddInt64(&s.obsCalls, 1)
			if token != tokenOf(id) {
				s.find("iso", "observer-crosstalk", fmt.Sprintf("a rule saw Req.Id=%d together with Resp.Token=%d, which belongs to request %d", id, token, (token-3)/7), nil)
			}
		},
		"boom": func(id int64) { panic(fmt.Sprintf("request %d panics inside an injected function", id)) },
		"mix":  func(a, b, c int64) int64 { return a + 3*b + 5*c },
		"pause": func(x int64) int64 {
			time.Sleep(20 * time.Microsecond)
			return x + 1
		},
		// k4 is ALSO the name of an object the pool was built with: requests that inject their own k4
		// replace it for the time of the request; whatever is there afterwards, it is not their object
		"k4": &Key{Id: apiKeyId},
		// slow hands its argument back after 0.3 ms: a conc member that is still busy when a sibling has failed
		// long ago; if the block did not wait for it, it resolves Resp.Token in whatever request has the instance then
		"slow": func(x int64) int64 {
			time.Sleep(300 * time.Microsecond)
			return x
		},
		"cfail": func(b bool) {
			if b {
				panic("a conc member fails on purpose")
			}
		},
	}
	var p *engine.GenginePool
	err := trace.CompileLocked(func() error {
		var e error
		p, e = engine.NewGenginePool(s.min, s.max, 1+r.Intn(4), stormRules, apis)
		return e
	})
	if err != nil {
		return nil, err
	}
	s.pool = p
	s.t = &trace.Target{Pool: p}
	return s, nil
}

var poolMethods = append(append([]string{}, trace.EngineMethods...), trace.PoolOnlyMethods...)

// genCall picks a pool method and arguments over the storm rule names.
func (s *Storm) genCall(r *rand.Rand, gateOnly bool) trace.Call {
	if gateOnly {
		// methods that surely run q1 (the gate rule)
		m := []string{trace.MExecute, trace.MConcurrent, trace.MMix, trace.MInverse, trace.MPoolEM, trace.MPoolEMMulti, trace.MExecuteStop, trace.MMixStop}[r.Intn(8)]
		return trace.Call{Method: m, B: true, Pool: true}
	}
	c := trace.Call{Method: poolMethods[r.Intn(len(poolMethods))], B: r.Intn(2) == 0, Pool: true}
	names := append([]string{}, stormNames...)
	r.Shuffle(len(names), func(i, j int) { names[i], names[j] = names[j], names[i] })
	switch c.Method {
	case trace.MNSortMConc, trace.MNConcMSort, trace.MNConcMConc:
		tot := 2 + r.Intn(7)
		c.N = 1 + r.Intn(tot-1)
		c.M = tot - c.N
		// a request the method rejects (nothing runs): it must still get a result map of its own
		switch r.Intn(12) {
		case 0:
			c.N = 0
		case 1:
			c.M = len(stormNames) + 3
		case 2:
			// n+m overflows: the request ends with a panic in the caller's goroutine (slice bounds) - like every
			// request it has to hand its instance back
			c.N, c.M = math.MaxInt64, 1
		}
	case trace.MSelNSortMConc, trace.MSelNConcMSort, trace.MSelNConcMConc:
		tot := 2 + r.Intn(7)
		c.N = 1 + r.Intn(tot-1)
		c.M = tot - c.N
		c.Names = names[:tot]
		switch r.Intn(12) {
		case 0:
			c.Names = names[:tot-1] // number of names differs from N+M
		case 1:
			c.Names = append(append([]string{}, names[:tot-1]...), "nosuchrule")
		case 2:
			c.M = 0
		}
	case trace.MDAG:
		nl := 1 + r.Intn(3)
		if r.Intn(8) == 0 {
			nl = 0 // an empty DAG: runs nothing, must still hand the instance back exactly once
			c.DAG = [][]string{}
		}
		at := 0
		for i := 0; i < nl && at < len(names); i++ {
			w := 1 + r.Intn(3)
			if at+w > len(names) {
				w = len(names) - at
			}
			c.DAG = append(c.DAG, names[at:at+w])
			at += w
		}
	default:
		if c.IsSelected() {
			c.Names = names[:1+r.Intn(len(names))]
		}
	}
	return c
}

// fire performs one request and checks what it got back (C06 clauses).
func (s *Storm) fire(r *rand.Rand, c trace.Call, fail, boom bool, holdUs int64, keys []string) *done {
	id := atomic.AddInt64(&s.nextID, 1)
	req := &Req{Id: id, Fail: fail, Boom: boom, HoldUs: holdUs, List: []int64{id, id + 1, id + 2}, Tab: map[string]int64{"k": id},
		KeyN: id % 7, ITab: map[int32]int64{int32(id % 7): id, int32(id%7 + 1): -1}}
	if s.faults && !fail && !boom {
		req.Fail2 = r.Intn(7) == 0
		req.Dirty = r.Intn(7) == 0
		req.CallData = r.Intn(10) == 0
	}
	resp := &Resp{Token: tokenOf(id)}
	d := &done{id: id, call: c, resp: resp, injected: map[string]bool{}, healthy: !fail && !boom && !req.Fail2, fail2: req.Fail2}
	c.Data = map[string]interface{}{"Req": req, "Resp": resp}
	if c.Method == trace.MPoolEM && keys != nil && !fail && !boom && r.Intn(5) == 0 {
		// a request that fills only the SECOND of the two object slots (its key object k3): its rules that
		// need Req fail, p3 reads k3 - and k3 has to be gone afterwards like every injected name
		c.Data = map[string]interface{}{"\x00second-slot-only": &Key{Id: id}}
		d.injected["k3"] = true
		d.healthy = false
		s.k.Count("requests_filling_only_the_second_slot", 1)
	}
	if c.Method == trace.MPoolEM && keys != nil && !fail && !boom && len(c.Data) == 2 && r.Intn(8) == 0 {
		// ... and one that fills neither slot: it runs the rules on nothing and hands its instance back like any other
		c.Data = map[string]interface{}{"\x00no-slots": true}
		d.healthy = false
		s.k.Count("requests_filling_no_slot", 1)
	}
	if c.Method != trace.MPoolEM {
		for _, kx := range keys {
			c.Data[kx] = &Key{Id: id}
			d.injected[kx] = true
		}
		if keys != nil && r.Intn(6) == 0 {
			// values of other Go kinds among the injected data (no rule reads them): an array, a typed nil, a func
			c.Data["karr"] = [3]int64{id, id, id}
			var np *Key
			c.Data["knil"] = np
			c.Data["kfun"] = func() int64 { return id }
		}
		if keys != nil && r.Intn(7) == 0 {
			// entries the pool does not inject at all (an untyped nil value, an empty key): the request runs
			// without them and hands its instance back like any other
			c.Data["knone"] = nil
			if r.Intn(2) == 0 {
				c.Data[""] = &Key{Id: id}
			}
			// (whether such a request is served or turned away with an error is not what the isolation and
			// capacity properties speak about: the identity oracles leave it alone, the conservation oracles do not)
			d.healthy = false
			s.k.Count("requests_with_entries_that_are_not_injected", 1)
		}
	}
	d.callSeq = atomic.AddInt64(&s.seq, 1)
	g := goid()
	s.goidReq.Store(g, id)
	out := s.t.Invoke(c, trace.NewLog())
	for dk := range c.Data {
		delete(c.Data, dk) // the caller recycles its map the moment the call has returned
	}
	s.goidReq.Delete(g)
	d.retSeq = atomic.AddInt64(&s.seq, 1)
	d.res, d.err, d.pan = out.Result, out.Err, out.Panic
	// callers own the map they get: this one leaves its mark in it, and must not find anyone else's
	if out.Result != nil {
		if o, ok := out.Result[ownerMark]; ok {
			s.find("iso", "pool."+c.Method+"/result-map-shared", fmt.Sprintf("pool.%s: the result map handed to request %d is the one request %v received (its owner mark is in it)", c.Method, id, o), nil)
		}
		if id%3 != 0 {
			out.Result[ownerMark] = -id
		} // every third caller leaves the map exactly as it got it (an empty one stays empty): it is compared again later
	}
	d.snap = map[string]interface{}{}
	for k, v := range out.Result {
		d.snap[k] = v
	}
	s.checkIdentity(d, "at return")
	s.mu.Lock()
	s.dones = append(s.dones, d)
	s.mu.Unlock()
	// request shape (method, arguments shape, injected keys, faults, pool size, did it run concurrently with others)
	s.k.Distinct("req", c.Method, len(c.Names), c.N, c.M, len(c.DAG), c.B, keys, fail, boom, s.min, s.max, len(d.res), d.err == nil, s.gate.Inside() > 0)
	return d
}

func (s *Storm) checkIdentity(d *done, when string) {
	m := "pool." + d.call.Method
	for name, v := range d.res {
		if name == ownerMark || (poolsOwn(name, v) && !d.injected["k4"]) {
			continue
		}
		iv, ok := v.(int64)
		if !ok || iv != d.id {
			s.find("iso", m+"/foreign-result", fmt.Sprintf("%s: request %d got result[%q]=%v (%s)", m, d.id, name, v, when), map[string]interface{}{"call": d.call, "result": fmt.Sprint(d.res)})
		}
		if len(name) == 2 && name[0] == 'p' && !d.injected["k"+name[1:]] {
			s.find("iso", m+"/stale-key", fmt.Sprintf("%s: request %d did not inject k%s but probe rule %s could read it (value %v)", m, d.id, name[1:], name, v), map[string]interface{}{"call": d.call})
		}
	}
	// a healthy request through a method that runs the whole set must get all four of its own
	// values back: if its Req/Resp vanished from the instance mid-flight (another request's
	// clean-up) its rules fail instead
	if d.healthy && when == "at return" {
		var mustRun []string
		switch d.call.Method {
		case trace.MExecute, trace.MConcurrent, trace.MMix, trace.MInverse, trace.MPoolEM, trace.MPoolEMMulti, trace.MExecuteStop, trace.MMixStop:
			mustRun = []string{"q1", "q2", "q3", "q4"}
		case trace.MSel, trace.MSelConcurrent, trace.MSelMix:
			mustRun = d.call.Names
		case trace.MSelCtl, trace.MSelCtlStop:
			if d.call.B {
				mustRun = d.call.Names
			}
		}
		if mustRun != nil {
			for i, q := range []string{"q1", "q2", "q3", "q4"} {
				sel := false
				for _, n := range mustRun {
					if n == q {
						sel = true
					}
				}
				if !sel {
					continue
				}
				outs := []int64{d.resp.Out1, d.resp.Out2, d.resp.Out3, d.resp.Out4}
				if v, ok := d.res[q]; !ok || v != interface{}(d.id) || outs[i] != d.id {
					s.find("iso", m+"/own-data-lost", fmt.Sprintf("%s: healthy request %d did not get its own value back from rule %s (result %v, Resp.Out%d=%d, err=%v): its injected data was not there for its rules", m, d.id, q, d.res, i+1, outs[i], d.err), map[string]interface{}{"call": d.call})
					break
				}
			}
		}
	}
	// values computed by the statement kinds from the request's own data
	if when == "at return" {
		id := d.id
		if _, ran := d.res["q2"]; ran && d.resp.Mix != id+3*(id+1)+5*(2*id) {
			s.find("iso", m+"/foreign-arguments", fmt.Sprintf("%s: request %d: mix(Req.Id, pause(Req.Id), Req.Id*2) produced %d, its own arguments give %d", m, id, d.resp.Mix, id+3*(id+1)+5*(2*id)), map[string]interface{}{"call": d.call})
		}
		if _, ran := d.res["q3"]; ran && d.resp.Tw != 2*id {
			s.find("iso", m+"/foreign-method-receiver", fmt.Sprintf("%s: request %d: Req.Twice() returned %d, on its own object it is %d", m, id, d.resp.Tw, 2*id), map[string]interface{}{"call": d.call})
		}
		if _, ran := d.res["q3"]; ran && d.resp.MV2 != 40*id {
			s.find("iso", m+"/foreign-map-key", fmt.Sprintf("%s: request %d: 40 reads of Req.ITab[kn] with its own kn=%d summed to %d, its own map gives %d", m, id, id%7, d.resp.MV2, 40*id), map[string]interface{}{"call": d.call})
		}
		if _, ran := d.res["q3"]; ran && d.resp.MV != 2*id {
			s.find("iso", m+"/foreign-map-element", fmt.Sprintf("%s: request %d: Req.Tab[\"k\"] + Req.Tab[kv] gave %d, its own map gives %d", m, id, d.resp.MV, 2*id), map[string]interface{}{"call": d.call})
		}
		if _, ran := d.res["q3"]; ran && (d.resp.Sum3 != 2*id+5 || d.resp.Grade != 2) {
			s.find("iso", m+"/loop-or-branch-disturbed", fmt.Sprintf("%s: request %d: forRange+for over its own list gave %d (expected %d), else-if chain gave grade %d (expected 2)", m, id, d.resp.Sum3, 2*id+5, d.resp.Grade), map[string]interface{}{"call": d.call})
		}
		if _, ran := d.res["q4"]; ran {
			if d.fail2 {
				s.find("iso", m+"/conc-error-lost", fmt.Sprintf("%s: request %d: a member of its conc block failed but the rule went on and returned", m, id), map[string]interface{}{"call": d.call})
			} else if d.resp.C1 != id || d.resp.C2 != id+1 {
				s.find("iso", m+"/conc-values", fmt.Sprintf("%s: request %d: conc block stored C1=%d C2=%d, expected %d %d", m, id, d.resp.C1, d.resp.C2, id, id+1), map[string]interface{}{"call": d.call})
			}
		}
		if d.resp.Seen != 0 {
			s.find("iso", m+"/stale-local", fmt.Sprintf("%s: request %d: a rule read a local it never assigned and got %d (left behind by another execution)", m, id, d.resp.Seen), map[string]interface{}{"call": d.call})
		}
	}
	for i, o := range []int64{d.resp.Out1, d.resp.Out2, d.resp.Out3, d.resp.Out4} {
		if o != 0 && o != d.id {
			s.find("iso", m+"/foreign-write", fmt.Sprintf("%s: request %d found Resp.Out%d=%d written by another request", m, d.id, i+1, o), nil)
		}
	}
	if d.resp.Token != tokenOf(d.id) {
		s.find("iso", m+"/foreign-write", fmt.Sprintf("%s: request %d: Resp.Token changed", m, d.id), nil)
	}
}

// recheck compares every returned result map with the snapshot taken at return.
func (s *Storm) recheck() {
	s.mu.Lock()
	ds := append([]*done{}, s.dones...)
	s.mu.Unlock()
	for _, d := range ds {
		if len(d.res) != len(d.snap) {
			s.find("iso", "pool."+d.call.Method+"/result-modified-later", fmt.Sprintf("the result map returned to request %d changed after the call had returned: now %v, was %v", d.id, d.res, d.snap), nil)
			continue
		}
		for k, v := range d.snap {
			if d.res[k] != v {
				s.find("iso", "pool."+d.call.Method+"/result-modified-later", fmt.Sprintf("the result map returned to request %d changed after the call had returned: now %v, was %v", d.id, d.res, d.snap), nil)
				break
			}
		}
	}
}

const progressBound = 20 * time.Second

// saturate starts n gated requests and waits until all are inside the gate.
func (s *Storm) saturate(n int, phase string) (wg *sync.WaitGroup, ok bool) {
	s.gate.Block()
	wg = &sync.WaitGroup{}
	for i := 0; i < n; i++ {
		wg.Add(1)
		rr := rand.New(rand.NewSource(s.r.Int63()))
		c := s.genCall(rr, true)
		go func() {
			defer wg.Done()
			s.fire(rr, c, false, false, 0, nil)
		}()
	}
	ok = waitUntil(progressBound, func() bool { return s.gate.Inside() >= n })
	if !ok {
		buf := make([]byte, 1<<18)
		nb := runtime.Stack(buf, true)
		s.find("cap", "cannot-admit-max/"+phase, fmt.Sprintf("%s: a (%d,%d) pool admitted only %d of %d simultaneous requests within %v", phase, s.min, s.max, s.gate.Inside(), n, progressBound),
			map[string]interface{}{"goroutines": string(buf[:nb])})
	}
	return wg, ok
}

// Run executes the phases; clients x perClient requests in the storm phase.
func (s *Storm) Run(clients, perClient int, faults bool) {
	k := s.k
	max := int(s.max)
	// phase 0 (half of the storms): a little sequential traffic on the fresh pool, so that the
	// first hand-backs happen while most instances have never been taken
	if s.r.Intn(2) == 0 {
		n := 1 + s.r.Intn(3)
		for i := 0; i < n; i++ {
			rr := rand.New(rand.NewSource(s.r.Int63()))
			s.fire(rr, s.genCall(rr, true), false, false, 0, nil)
			s.Quiesce()
		}
		k.Count("storms_with_sequential_prelude", 1)
	}
	// phase 1: saturate, extra requests must wait
	wg, ok := s.saturate(max, "first saturation")
	if ok {
		k.Count("saturations", 1)
		extra := 1 + s.r.Intn(3)
		var returned int32
		ewg := &sync.WaitGroup{}
		for i := 0; i < extra; i++ {
			ewg.Add(1)
			rr := rand.New(rand.NewSource(s.r.Int63()))
			c := s.genCall(rr, true)
			go func() {
				defer ewg.Done()
				d := s.fire(rr, c, false, false, 0, nil)
				atomic.AddInt32(&returned, 1)
				_ = d
			}()
		}
		time.Sleep(time.Duration(1000+s.r.Intn(2000)) * time.Microsecond)
		if n := atomic.LoadInt32(&returned); n > 0 {
			s.find("cap", "waiter-did-not-wait", fmt.Sprintf("all %d instances were busy (held in the gate) but %d extra request(s) returned instead of waiting", max, n), nil)
		}
		if in := s.gate.Inside(); in > max {
			s.find("cap", "more-than-max-inside", fmt.Sprintf("%d rule bodies inside the gate of a pool with max=%d", in, max), nil)
		}
		k.Count("waiters_observed", int64(extra))
		s.gate.Release()
		if !waitDone(wg, progressBound) || !waitDone(ewg, progressBound) {
			s.find("cap", "waiters-stuck", "requests did not complete within the progress bound after the gate was opened", dump())
			return
		}
	} else {
		s.gate.Release()
		return
	}
	// phase 1b (half of the storms): the rules are cleared while requests wait for an instance,
	// then installed again; every waiter must still hand its instance back
	if s.r.Intn(2) == 0 {
		wgc, okc := s.saturate(max, "saturation before clear")
		if okc {
			nw := 1 + s.r.Intn(3)
			wwg := &sync.WaitGroup{}
			// every other time the rules are back BEFORE an instance becomes free: a request that was waiting
			// all the while is then served like any other (it gets its own values back)
			reinstallFirst := s.r.Intn(2) == 0
			for i := 0; i < nw; i++ {
				wwg.Add(1)
				rr := rand.New(rand.NewSource(s.r.Int63()))
				c := s.genCall(rr, true)
				go func() {
					defer wwg.Done()
					// never "healthy" for the identity oracle: the pool may be cleared when it gets in (then it is sent
					// away with nothing); what the capacity oracle demands of it is checked right here
					d := s.fire(rr, c, false, true, 0, nil)
					if reinstallFirst {
						// served, or - if it only arrived after the clear - sent away at once with nothing (nil error, empty
						// result): anything else means a request that was waiting was given up
						_, ran := d.res["q1"]
						sentAway := d.err == nil && d.pan == nil && len(d.res) <= 1 && d.resp.Out1 == 0
						if !(ran && d.resp.Out1 == d.id) && !sentAway {
							s.find("cap", "waiter-not-served", fmt.Sprintf("pool.%s: request %d was waiting for an instance while the rules were cleared and installed again; when instances became free it was not served (err=%v, result %v)", c.Method, d.id, d.err, d.res), dump())
						}
					}
				}()
			}
			time.Sleep(time.Duration(500+s.r.Intn(1500)) * time.Microsecond)
			s.pool.ClearPoolRules()
			k.Count("clears_while_requests_wait", 1)
			if reinstallFirst {
				var uerr error
				trace.CompileLocked(func() error { uerr = s.pool.UpdatePooledRules(stormRules); return nil })
				if uerr != nil {
					s.gate.Release()
					k.Inconclusive("re-installing the storm rules failed (C16's subject): " + uerr.Error())
					return
				}
				k.Count("rules_back_before_an_instance_was_free", 1)
			}
			s.gate.Release()
			if !waitDone(wgc, progressBound) || !waitDone(wwg, progressBound) {
				s.find("cap", "waiters-stuck", "requests did not complete after the rules were cleared while they waited", dump())
				return
			}
			var uerr error
			trace.CompileLocked(func() error { uerr = s.pool.UpdatePooledRules(stormRules); return nil })
			if uerr != nil {
				k.Inconclusive("re-installing the storm rules failed (C16's subject): " + uerr.Error())
				return
			}
		} else {
			s.gate.Release()
			return
		}
	}
	// phase 1c (half of the storms, needs hooks): exactly one instance is handed back while a
	// request waits - an ADDITIONAL instance (tag >= min) - and the waiter must be admitted
	// although every initial instance is still busy
	if HooksLinked() && s.r.Intn(2) == 0 {
		firstID := atomic.LoadInt64(&s.nextID)
		wg1, ok1 := s.saturate(max, "saturation before a single hand-back")
		if !ok1 {
			s.gate.Release()
			return
		}
		// the waiter
		wwg := &sync.WaitGroup{}
		wwg.Add(1)
		rrw := rand.New(rand.NewSource(s.r.Int63()))
		cw := s.genCall(rrw, true)
		enteredBefore := atomic.LoadInt64(&s.gate.entered)
		go func() {
			defer wwg.Done()
			s.fire(rrw, cw, false, false, 0, nil)
		}()
		time.Sleep(time.Duration(300+s.r.Intn(700)) * time.Microsecond)
		// a held request that sits on an additional instance
		var pick int64 = -1
		for id := firstID + 1; id <= firstID+int64(max); id++ {
			if tg, ok := s.reqTag.Load(id); ok && tg.(int64) >= s.min {
				pick = id
				break
			}
		}
		if pick >= 0 {
			s.gate.ReleaseOne(pick)
			k.Count("single_handbacks_of_an_additional_instance", 1)
			admitted := waitUntil(progressBound, func() bool { return atomic.LoadInt64(&s.gate.entered) > enteredBefore })
			if !admitted {
				s.find("cap", "waiter-not-admitted-after-handback", fmt.Sprintf("(%d,%d) pool: all instances busy, one request waiting; the request holding additional instance %v finished and handed it back, but the waiter was not admitted within %v", s.min, s.max, func() interface{} { v, _ := s.reqTag.Load(pick); return v }(), progressBound), dump())
			}
		}
		s.gate.Release()
		if !waitDone(wg1, progressBound) || !waitDone(wwg, progressBound) {
			s.find("cap", "waiters-stuck", "requests did not complete after the gate was opened (single hand-back phase)", dump())
			return
		}
	}
	// phase 2: storm
	s.faults = faults
	var cwg sync.WaitGroup
	for cl := 0; cl < clients; cl++ {
		cwg.Add(1)
		rr := rand.New(rand.NewSource(s.r.Int63()))
		go func() {
			defer cwg.Done()
			for i := 0; i < perClient; i++ {
				c := s.genCall(rr, false)
				fail := faults && rr.Intn(6) == 0
				boom := faults && rr.Intn(8) == 0
				hold := int64(0)
				if rr.Intn(3) == 0 {
					hold = int64(rr.Intn(300))
				}
				if faults && c.UsesStopTag() && rr.Intn(5) == 0 {
					// API misuse that panics in the caller's goroutine: the request "ends with a panic"
					c.NilStag = true
					boom = true
					s.k.Count("requests_ending_in_a_caller_panic", 1)
				}
				keys := []string{} // non-nil: a request of the storm proper (the gated phases pass nil)
				if rr.Intn(6) == 0 {
					// a name with a blank at its edge is another name than k1: no rule can read it, and it is gone afterwards
					keys = append(keys, "k1 ")
				}
				for _, kx := range []string{"k1", "k2", "k3", "k4"} {
					if rr.Intn(3) == 0 {
						keys = append(keys, kx)
					}
				}
				s.fire(rr, c, fail, boom, hold, keys)
			}
		}()
	}
	// half of the storms: exec-model changes and queries in a tight loop next to the requests
	var mstop int32
	var mwg sync.WaitGroup
	if s.r.Intn(2) == 0 {
		mwg.Add(1)
		seedM := s.r.Int63()
		go func() {
			defer mwg.Done()
			mr := rand.New(rand.NewSource(seedM))
			for n := 0; atomic.LoadInt32(&mstop) == 0 && n < 200000; n++ {
				s.pool.SetExecModel(1 + mr.Intn(4))
				if n%7 == 0 {
					s.pool.GetRulesNumber()
					s.pool.IsExist([]string{"q1", "nope"})
				}
				if n%64 == 0 {
					runtime.Gosched()
				}
			}
		}()
		k.Count("storms_with_management_loop", 1)
	}
	stormOK := waitDone(&cwg, 3*progressBound)
	atomic.StoreInt32(&mstop, 1)
	if !stormOK {
		s.find("cap", "storm-stuck", "the request storm did not complete within the progress bound", dump())
		return
	}
	if !waitDone(&mwg, progressBound) {
		s.find("cap", "management-stuck", "a SetExecModel / query loop running next to the requests did not come back within the progress bound", dump())
		return
	}
	s.faults = false
	if mi := int(atomic.LoadInt32(&s.gate.maxInside)); mi > max {
		s.find("cap", "more-than-max-inside", fmt.Sprintf("%d rule bodies were inside the gate at once, pool max=%d", mi, max), nil)
	}
	// quiescence: conservation on event counts
	gets, sched, _, _, _, errs, _, _ := s.shadow.Snapshot()
	if HooksLinked() {
		if gets != sched {
			s.find("cap", "instance-not-handed-back", fmt.Sprintf("at quiescence %d instances were taken but only %d hand-backs were scheduled", gets, sched), nil)
		}
		okDone := waitUntil(progressBound, func() bool {
			_, sc, dn, _, _, _, _, _ := s.shadow.Snapshot()
			return dn >= sc
		})
		_, _, _, infl, _, _, _, _ := s.shadow.Snapshot()
		if okDone && infl != 0 {
			s.find("cap", "shadow-free-set-mismatch", fmt.Sprintf("all scheduled hand-backs completed but %d instance(s) are still marked in flight", infl), nil)
		}
		for _, e := range errs {
			s.find("cap", "double-use", e, nil)
		}
	}
	// phase 2b (two thirds of the storms): rounds in which max requests are released at the same instant, so
	// that their hand-backs collide; an instance lost in such a collision shows in phase 3
	if s.r.Intn(3) > 0 {
		rounds := 40 + s.r.Intn(80)
		for i := 0; i < rounds; i++ {
			wgr, okr := s.saturate(max, "rendezvous round")
			atomic.StoreInt32(&s.putArrived, 0)
			atomic.StoreInt32(&s.putBarrier, int32(max))
			s.gate.Release()
			if !okr || !waitDone(wgr, progressBound) {
				atomic.StoreInt32(&s.putBarrier, 0)
				s.find("cap", "waiters-stuck", "requests of a rendezvous round did not complete", dump())
				return
			}
			atomic.StoreInt32(&s.putBarrier, 0)
		}
		k.Count("rendezvous_rounds", int64(rounds))
	}
	// idle instances stay the pool's, however many garbage collections pass
	runtime.GC()
	runtime.GC()
	// phase 3: the pool can still serve max simultaneous requests; they reach every instance
	// and must see none of the keys injected during the storm
	before := len(s.dones)
	wg2, ok2 := s.saturate(max, "re-saturation after the storm")
	if ok2 {
		k.Count("saturations", 1)
	}
	s.gate.Release()
	if !waitDone(wg2, progressBound) {
		s.find("cap", "waiters-stuck", "requests of the re-saturation did not complete", dump())
		return
	}
	s.mu.Lock()
	probes := append([]*done{}, s.dones[before:]...)
	s.mu.Unlock()
	for _, d := range probes {
		for name, v := range d.res {
			if len(name) == 2 && name[0] == 'p' && !poolsOwn(name, v) {
				s.find("iso", "pool."+d.call.Method+"/stale-key-after-storm", fmt.Sprintf("a request that injected no keys could read k%s left behind by an earlier request (instance reached by simultaneous probes)", name[1:]), nil)
			}
		}
	}
	s.recheck()
	_, _, _, _, mf, errs2, seen, points := s.shadow.Snapshot()
	for _, e := range errs2[len(errs):] {
		s.find("cap", "double-use", e, nil)
	}
	k.Count("requests", int64(len(s.dones)))
	k.Count("gate_entries", atomic.LoadInt64(&s.gate.entered))
	k.Count("requests_overlapping_mid_rule", atomic.LoadInt64(&s.gate.overlapped))
	k.Count("observer_calls", atomic.LoadInt64(&s.obsCalls))
	k.Max("max_inflight_by_hooks", int64(mf))
	k.Max("max_inside_gate", int64(atomic.LoadInt32(&s.gate.maxInside)))
	if HooksLinked() {
		if len(seen) == max {
			k.Count("storms_where_every_instance_served", 1)
		}
		for p, n := range points {
			k.Count("hook_"+p, n)
		}
	}
	var sig []string
	ms := map[string]int{}
	for _, d := range s.dones {
		ms[d.call.Method]++
	}
	for m := range ms {
		sig = append(sig, m)
	}
	sort.Strings(sig)
	k.Distinct(s.min, s.max, len(sig), mf, len(seen), atomic.LoadInt64(&s.gate.overlapped)/8)
	for m, n := range ms {
		k.Count("calls_"+m, int64(n))
	}
}

func waitDone(wg *sync.WaitGroup, d time.Duration) bool {
	ch := make(chan struct{})
	go func() { wg.Wait(); close(ch) }()
	select {
	case <-ch:
		return true
	case <-time.After(d):
		return false
	}
}

func dump() map[string]interface{} {
	buf := make([]byte, 1<<18)
	n := runtime.Stack(buf, true)
	return map[string]interface{}{"goroutines": string(buf[:n])}
}

// Quiesce waits (bounded) until every scheduled hand-back has completed.
func (s *Storm) Quiesce() bool {
	if !HooksLinked() {
		time.Sleep(2 * time.Millisecond)
		return true
	}
	return waitUntil(progressBound, func() bool {
		_, sc, dn, _, _, _, _, _ := s.shadow.Snapshot()
		return dn >= sc
	})
}

// Findings returns what the storm found.
func (s *Storm) Findings() []StormFinding {
	s.mu.Lock()
	defer s.mu.Unlock()
	return append([]StormFinding{}, s.findings...)
}

func runStormFamily(k *fw.Case, class string, clients, perClient int) {
	procs := []int{1, 2, 4, 16}[k.Rng.Intn(4)]
	prev := runtime.GOMAXPROCS(procs)
	defer runtime.GOMAXPROCS(prev)
	s, err := NewStorm(k, true)
	if err != nil {
		k.Inconclusive("storm rule text does not compile (C10's subject): " + err.Error())
		return
	}
	s.Run(clients, perClient, true)
	// hand-backs are asynchronous: let them finish before the next case installs its own sink
	// (hook points carry no pool identity)
	s.Quiesce()
	SetSink(nil)
	k.Eval(len(s.dones))
	for _, f := range s.Findings() {
		if f.Class != class {
			k.Count("findings_other_property_"+f.Class, 1)
			continue
		}
		k.Violate(f.Key, f.What, map[string]interface{}{"pool": fmt.Sprintf("(%d,%d)", s.min, s.max), "gomaxprocs": procs, "extra": f.Extra})
	}
	k.Sample(map[string]interface{}{"pool_min": s.min, "pool_max": s.max, "gomaxprocs": procs, "requests": len(s.dones), "clients": clients})
}

// RunC06 / RunC17 are the family bodies.
func RunC06(k *fw.Case) { runStormFamily(k, "iso", 6+k.Rng.Intn(10), 12) }
func RunC17(k *fw.Case) { runStormFamily(k, "cap", 4+k.Rng.Intn(12), 8) }
