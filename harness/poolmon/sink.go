// Package poolmon is engines E3/E4: pool scenarios, hook-fed monitors and the
// version-history checker (C06, C07, C16, C17, and the pool families of C19).
package poolmon

import (
	"bytes"
	"runtime"
	"strconv"
	"sync"
	"sync/atomic"
	"time"
)

// hooksLinked is true when the worker was built with -tags verif (always, via ./check).
var hooksLinked bool

// Sink receives the pool's hook points for the scenario that is currently running.
type Sink interface {
	Hook(point string, tag int64)
}

type sinkBox struct{ s Sink }

var curSink atomic.Value // sinkBox

func SetSink(s Sink) { curSink.Store(sinkBox{s}) }

func dispatch(point string, tag int64) {
	if b, ok := curSink.Load().(sinkBox); ok && b.s != nil {
		b.s.Hook(point, tag)
	}
}

// HooksLinked reports whether hook points are compiled in.
func HooksLinked() bool { return hooksLinked }

// goid returns the current goroutine's id (used only to associate hook calls with the
// client call that is executing them; never for verdict ordering).
func goid() int64 {
	var buf [64]byte
	n := runtime.Stack(buf[:], false)
	b := buf[:n]
	b = bytes.TrimPrefix(b, []byte("goroutine "))
	i := bytes.IndexByte(b, ' ')
	if i < 0 {
		return -1
	}
	v, _ := strconv.ParseInt(string(b[:i]), 10, 64)
	return v
}

// Shadow is the hook-fed capacity/conservation monitor (C17): it mirrors which instance
// tags are in flight. It is updated while the pool's own list lock is held.
type Shadow struct {
	mu        sync.Mutex
	inflight  map[int64]bool
	seen      map[int64]int64 // tag -> number of gets
	Gets      int64
	PutSched  int64
	PutDone   int64
	MaxFlight int
	Errors    []string
	points    map[string]int64
	// Jitter, when set, is called at every point (schedule widening).
	Jitter func(point string)
}

func NewShadow() *Shadow {
	return &Shadow{inflight: map[int64]bool{}, seen: map[int64]int64{}, points: map[string]int64{}}
}

func (s *Shadow) Hook(point string, tag int64) {
	s.mu.Lock()
	s.points[point]++
	switch point {
	case "pool.get.locked":
		if s.inflight[tag] {
			s.Errors = append(s.Errors, "instance "+strconv.FormatInt(tag, 10)+" was handed out while it was still in flight")
		}
		s.inflight[tag] = true
		s.seen[tag]++
		s.Gets++
		if n := len(s.inflight); n > s.MaxFlight {
			s.MaxFlight = n
		}
	case "pool.put.scheduled":
		s.PutSched++
	case "pool.put.done":
		if !s.inflight[tag] {
			s.Errors = append(s.Errors, "instance "+strconv.FormatInt(tag, 10)+" was handed back although it was not in flight")
		}
		delete(s.inflight, tag)
		s.PutDone++
	}
	j := s.Jitter
	s.mu.Unlock()
	if j != nil {
		j(point)
	}
}

func (s *Shadow) Snapshot() (gets, sched, done int64, inflight int, maxFlight int, errs []string, seen map[int64]int64, points map[string]int64) {
	s.mu.Lock()
	defer s.mu.Unlock()
	seen = map[int64]int64{}
	for k, v := range s.seen {
		seen[k] = v
	}
	points = map[string]int64{}
	for k, v := range s.points {
		points[k] = v
	}
	return s.Gets, s.PutSched, s.PutDone, len(s.inflight), s.MaxFlight, append([]string{}, s.Errors...), seen, points
}

// waitUntil polls cond (every 50µs) for at most d; it reports whether cond became true.
func waitUntil(d time.Duration, cond func() bool) bool {
	deadline := time.Now().Add(d)
	for {
		if cond() {
			return true
		}
		if time.Now().After(deadline) {
			return cond()
		}
		runtime.Gosched()
		time.Sleep(50 * time.Microsecond)
	}
}

// lcg is a tiny lock-free PRNG for hook jitter (seeded per case).
type lcg struct{ s uint64 }

func (l *lcg) next() uint64 {
	for {
		o := atomic.LoadUint64(&l.s)
		n := o*6364136223846793005 + 1442695040888963407
		if atomic.CompareAndSwapUint64(&l.s, o, n) {
			return n >> 33
		}
	}
}
