package poolmon

import (
	"math/rand"
	"runtime"
	"sync"
	"sync/atomic"
	"time"

	"github.com/bilibili/gengine/engine"
	"verifharness/fw"
	"verifharness/trace"
)

// RunMgmtStorm: management calls (updates, removal, clear, exec-model changes, queries)
// concurrent with requests through every pool method. It has no oracle of its own beyond
// "nothing panics": it is the workload under which the race detector watches the pool's
// management state (C19).
func RunMgmtStorm(k *fw.Case) {
	r := k.Rng
	procs := []int{2, 4, 16}[r.Intn(3)]
	prev := runtime.GOMAXPROCS(procs)
	defer runtime.GOMAXPROCS(prev)
	sz := [][2]int64{{1, 2}, {2, 4}, {3, 5}}[r.Intn(3)]
	tg := &tagger{next: 100}
	s0 := genUpdate(r, tg, verState{}, updFull)
	shadow := NewShadow()
	l := &lcg{s: uint64(r.Int63())}
	shadow.Jitter = func(point string) {
		if l.next()%4 == 0 {
			runtime.Gosched()
		}
	}
	SetSink(shadow)
	defer SetSink(nil)
	var p *engine.GenginePool
	if err := trace.CompileLocked(func() error {
		var e error
		p, e = engine.NewGenginePool(sz[0], sz[1], 1+r.Intn(4), s0.text, nil)
		return e
	}); err != nil {
		k.Inconclusive("text does not compile: " + err.Error())
		return
	}
	t := &trace.Target{Pool: p}
	var stop int32
	var wg sync.WaitGroup
	var execs, mgmt int64
	for c := 0; c < 4+r.Intn(6); c++ {
		wg.Add(1)
		rr := rand.New(rand.NewSource(r.Int63()))
		go func() {
			defer wg.Done()
			for n := 0; n < 300 && atomic.LoadInt32(&stop) == 0; n++ {
				call := genExecCall(rr)
				if rr.Intn(3) == 0 {
					// the ...WithSpecifiedEM methods read the exec model that SetExecModel writes
					call = trace.Call{Method: trace.PoolOnlyMethods[rr.Intn(3)], Pool: true}
					if call.Method == trace.MPoolEMSel {
						call.Names = []string{"a", "b", "c"}
					}
				}
				_, lg, data := reqObs()
				call.Data = data
				out := t.Invoke(call, lg)
				atomic.AddInt64(&execs, 1)
				if out.Panic != nil {
					k.Count("request_panics", 1)
				}
			}
		}()
	}
	// two managers: management calls are also concurrent with each other
	var mwg sync.WaitGroup
	for mg := 0; mg < 2; mg++ {
		mwg.Add(1)
		mr := rand.New(rand.NewSource(r.Int63()))
		go func() {
			defer mwg.Done()
			cur := s0.after
			for i := 0; i < 20; i++ {
				time.Sleep(time.Duration(50+mr.Intn(250)) * time.Microsecond)
				func() {
					defer func() {
						if x := recover(); x != nil {
							k.Count("management_panics", 1)
						}
					}()
					switch mr.Intn(12) {
					case 0:
						u := genUpdate(mr, tg, cur, updFull)
						if apply(p, u) == nil {
							cur = u.after
						}
					case 1, 2:
						u := genUpdate(mr, tg, cur, updIncremental)
						if apply(p, u) == nil {
							cur = u.after
						}
					case 3:
						u := genUpdate(mr, tg, cur, updRemoval)
						if apply(p, u) == nil {
							cur = u.after
						}
					case 4:
						p.ClearPoolRules()
						cur = verState{}
						k.Count("clears_during_requests", 1)
					case 5, 9, 10, 11:
						p.SetExecModel(1 + mr.Intn(4))
						k.Count("exec_model_changes_during_requests", 1)
					case 6:
						p.IsExist(alphabet)
						p.GetRulesNumber()
					case 7:
						p.GetRuleSalience("a")
						p.GetRuleDesc("b")
						p.GetExecModel()
					default:
						apply(p, genUpdate(mr, tg, cur, updFailing))
					}
					atomic.AddInt64(&mgmt, 1)
				}()
			}
		}()
	}
	mwg.Wait()
	atomic.StoreInt32(&stop, 1)
	if !waitDone(&wg, 3*progressBound) {
		k.Inconclusive("requests did not stop")
		return
	}
	k.Eval(int(execs + mgmt))
	k.Count("requests_during_management", execs)
	k.Count("management_calls_during_requests", mgmt)
	k.Distinct("mgmtstorm", sz, procs, mgmt, execs/50)
	waitUntil(progressBound, func() bool {
		_, sc, dn, _, _, _, _, _ := shadow.Snapshot()
		return dn >= sc
	})
}
