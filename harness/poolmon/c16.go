package poolmon

import (
	"fmt"
	"math/rand"
	"runtime"
	"sort"
	"strings"
	"sync"
	"sync/atomic"
	"time"

	"github.com/bilibili/gengine/engine"
	"verifharness/fw"
	"verifharness/trace"
)

// ---- C16: management histories on a pool, queries and executions on every instance ----

type pmodel struct {
	st      verState
	cleared bool
	em      int
	fulls   []fullRec // texts of earlier successful full updates (re-pushed later)
}

type fullRec struct {
	text string
	st   verState
}

func descText(r *trace.Rule) string {
	h := fmt.Sprintf("rule \"%s\"", r.Name)
	if r.HasDesc {
		h += fmt.Sprintf(" \"%s\"", r.Desc)
	}
	if r.HasSal {
		h += fmt.Sprintf(" salience %d", r.Sal)
	}
	return fmt.Sprintf("%s begin st(%d) en(%d) return %d end\n", h, r.ID, r.ID, r.RetVal)
}

func descTextOf(rules []*trace.Rule) string {
	var b strings.Builder
	for _, r := range rules {
		b.WriteString(descText(r))
	}
	return b.String()
}

type mgmtOp struct {
	Kind   string   `json:"kind"`
	Text   string   `json:"text,omitempty"`
	Names  []string `json:"names,omitempty"`
	EM     int      `json:"em,omitempty"`
	WantE  bool     `json:"want_error"`
	Repush bool     `json:"repush_of_earlier_text,omitempty"`
	GotE   string   `json:"got_error,omitempty"`
}

func (m *pmodel) names() []string {
	var out []string
	for n := range m.st {
		out = append(out, n)
	}
	sort.Strings(out)
	return out
}

func genMgmt(r *rand.Rand, tg *tagger, m *pmodel) (*mgmtOp, func()) {
	mk := func(nm string) *trace.Rule {
		ru := tg.rule(nm, int64(r.Intn(7)-3), "")
		ru.HasDesc, ru.Desc = true, fmt.Sprintf("d%d", ru.ID)
		switch r.Intn(6) {
		case 0: // no description clause
			ru.HasDesc, ru.Desc = false, ""
		case 1: // no salience clause: salience 0
			ru.HasSal, ru.Sal = false, 0
		case 2: // neither
			ru.HasDesc, ru.Desc, ru.HasSal, ru.Sal = false, "", false, 0
		}
		return ru
	}
	switch r.Intn(12) {
	case 0, 1: // full update
		if len(m.fulls) > 0 && r.Intn(3) == 0 {
			// re-push of a text that was pushed before (after other operations changed the set)
			f := m.fulls[len(m.fulls)-1]
			if r.Intn(3) == 0 {
				f = m.fulls[r.Intn(len(m.fulls))]
			}
			return &mgmtOp{Kind: "full", Text: f.text, Repush: true}, func() { m.st, m.cleared = f.st.clone(), false }
		}
		n := 2 + r.Intn(4)
		names := append([]string{}, alphabet...)
		r.Shuffle(len(names), func(i, j int) { names[i], names[j] = names[j], names[i] })
		st := verState{}
		var rules []*trace.Rule
		for _, nm := range names[:n] {
			ru := mk(nm)
			st[nm] = ru
			rules = append(rules, ru)
		}
		text := descTextOf(rules)
		return &mgmtOp{Kind: "full", Text: text}, func() { m.st, m.cleared = st, false; m.fulls = append(m.fulls, fullRec{text, st.clone()}) }
	case 2, 3, 4: // incremental update
		st := m.st.clone()
		var rules []*trace.Rule
		used := map[string]bool{}
		for i := 0; i < 1+r.Intn(3); i++ {
			nm := alphabet[r.Intn(len(alphabet))]
			if used[nm] {
				continue
			}
			used[nm] = true
			ru := mk(nm)
			if old, ok := m.st[nm]; ok && r.Intn(2) == 0 {
				ru.Sal, ru.HasSal = old.Sal, true
			}
			st[nm] = ru
			rules = append(rules, ru)
		}
		return &mgmtOp{Kind: "incremental", Text: descTextOf(rules)}, func() { m.st, m.cleared = st, false }
	case 5, 6: // removal
		var names []string
		for _, nm := range alphabet {
			if r.Intn(3) == 0 {
				names = append(names, nm)
			}
		}
		if r.Intn(4) == 0 {
			names = append(names, "ghost")
		}
		if len(names) == 0 {
			return &mgmtOp{Kind: "remove", Names: []string{}, WantE: true}, func() {}
		}
		st := m.st.clone()
		for _, nm := range names {
			delete(st, nm)
		}
		if r.Intn(3) == 0 {
			// a list that names some rules more than once removes what it names, nothing else
			for i, n := 0, 1+r.Intn(3); i < n; i++ {
				names = append(names, names[r.Intn(len(names))])
			}
			r.Shuffle(len(names), func(i, j int) { names[i], names[j] = names[j], names[i] })
		}
		return &mgmtOp{Kind: "remove", Names: names}, func() { m.st = st }
	case 7: // clear
		return &mgmtOp{Kind: "clear"}, func() { m.st, m.cleared = verState{}, true }
	case 8: // failing full / incremental texts
		ru := mk("a")
		bad := []string{"rule \"a\" begin st(1", descText(ru) + descText(ru), "", "   ", "rule \"zz\" salience x begin end", "rule \"a\" begin # end"}[r.Intn(6)]
		kind := []string{"full", "incremental"}[r.Intn(2)]
		return &mgmtOp{Kind: kind, Text: bad, WantE: true}, func() {}
	case 9:
		em := []int{0, 5, -1, 100}[r.Intn(4)]
		return &mgmtOp{Kind: "setem", EM: em, WantE: true}, func() {}
	default:
		em := 1 + r.Intn(4)
		return &mgmtOp{Kind: "setem", EM: em}, func() { m.em = em }
	}
}

func doMgmt(p *engine.GenginePool, op *mgmtOp) (err error, pan interface{}) {
	defer func() { pan = recover() }()
	switch op.Kind {
	case "full":
		err = p.UpdatePooledRules(op.Text)
	case "incremental":
		err = p.UpdatePooledRulesIncremental(op.Text)
	case "remove":
		err = p.RemoveRules(op.Names)
	case "clear":
		p.ClearPoolRules()
	case "setem":
		err = p.SetExecModel(op.EM)
	}
	return
}

// arrival barrier: the first st() of every request of a round waits for all of them.
type round struct {
	want    int32
	arrived int32
	timeout time.Duration
	failed  int32
}

func (rd *round) arrive() {
	atomic.AddInt32(&rd.arrived, 1)
	if !waitUntil(rd.timeout, func() bool { return atomic.LoadInt32(&rd.arrived) >= rd.want }) {
		atomic.StoreInt32(&rd.failed, 1)
	}
}

func RunC16(k *fw.Case) {
	r := k.Rng
	procs := []int{1, 2, 4, 16}[r.Intn(4)]
	prev := runtime.GOMAXPROCS(procs)
	defer runtime.GOMAXPROCS(prev)
	sz := [][2]int64{{1, 2}, {1, 3}, {2, 3}, {2, 4}, {3, 5}}[r.Intn(5)]
	max := int(sz[1])
	tg := &tagger{next: 100}
	m := &pmodel{em: 1 + r.Intn(4)}
	first, applyFirst := genMgmt(r, tg, m)
	for first.Kind != "full" || first.WantE {
		first, applyFirst = genMgmt(r, tg, m)
	}
	applyFirst()
	shadow := NewShadow()
	SetSink(shadow)
	defer SetSink(nil)
	var p *engine.GenginePool
	err := trace.CompileLocked(func() error {
		var e error
		p, e = engine.NewGenginePool(sz[0], sz[1], m.em, first.Text, nil)
		return e
	})
	if err != nil {
		k.Inconclusive("initial pool text does not compile: " + err.Error())
		return
	}
	t := &trace.Target{Pool: p}
	history := []*mgmtOp{{Kind: "new-pool", Text: first.Text, EM: m.em}}
	nOps := 10
	viol := func(key, what string, extra map[string]interface{}) {
		if extra == nil {
			extra = map[string]interface{}{}
		}
		extra["history"] = history
		extra["pool"] = fmt.Sprintf("(%d,%d)", sz[0], sz[1])
		extra["model_rules"] = names(m.st)
		extra["model_cleared"] = m.cleared
		extra["model_exec_model"] = m.em
		k.Violate(key, what, extra)
	}
	var kinds []string
	for i := 0; i <= nOps; i++ {
		if i > 0 {
			op, applyM := genMgmt(r, tg, m)
			history = append(history, op)
			kinds = append(kinds, op.Kind)
			var e error
			var pan interface{}
			trace.CompileLocked(func() error { e, pan = doMgmt(p, op); return nil })
			k.Eval(1)
			k.Count("op_"+op.Kind, 1)
			if op.Repush {
				k.Count("op_full_repush", 1)
			}
			if pan != nil {
				viol(op.Kind+"/panic", fmt.Sprintf("management call %s panicked: %v", op.Kind, pan), nil)
				return
			}
			if e != nil {
				op.GotE = trunc(e.Error(), 120)
			}
			if (e != nil) != op.WantE {
				viol(op.Kind+"/error-nilness", fmt.Sprintf("management call %s: error=%v, the denoted outcome is error=%v", op.Kind, e, op.WantE), nil)
				return
			}
			if e == nil {
				applyM()
			}
			if m.cleared {
				k.Count("states_cleared", 1)
			}
		}
		// ---- queries ----
		q := append(append([]string{}, alphabet...), "ghost")
		ex := p.IsExist(q)
		for j, nm := range q {
			_, want := m.st[nm]
			if m.cleared {
				want = false
			}
			if j >= len(ex) || ex[j] != want {
				viol("query/IsExist", fmt.Sprintf("IsExist(%q) = %v, the rule set denoted by the history says %v", nm, ex, want), nil)
				return
			}
		}
		wantN := len(m.st)
		if m.cleared {
			wantN = 0
		}
		if n := p.GetRulesNumber(); n != wantN {
			viol("query/GetRulesNumber", fmt.Sprintf("GetRulesNumber() = %d, expected %d", n, wantN), nil)
			return
		}
		if em := p.GetExecModel(); em != m.em {
			viol("query/GetExecModel", fmt.Sprintf("GetExecModel() = %d, expected %d", em, m.em), nil)
			return
		}
		for _, nm := range q {
			ru, has := m.st[nm]
			if m.cleared {
				has = false
			}
			sal, e1 := p.GetRuleSalience(nm)
			desc, e2 := p.GetRuleDesc(nm)
			if has {
				if e1 != nil || sal != ru.Sal {
					viol("query/GetRuleSalience", fmt.Sprintf("GetRuleSalience(%q) = (%d,%v), expected %d", nm, sal, e1, ru.Sal), nil)
					return
				}
				if e2 != nil || desc != ru.Desc {
					viol("query/GetRuleDesc", fmt.Sprintf("GetRuleDesc(%q) = (%q,%v), expected %q", nm, desc, e2, ru.Desc), nil)
					return
				}
			} else if e1 == nil || e2 == nil {
				viol("query/absent-rule", fmt.Sprintf("GetRuleSalience/GetRuleDesc(%q) succeeded for a rule that is not in the denoted set", nm), nil)
				return
			}
		}
		k.Count("query_rounds", 1)
		// ---- executions forced onto every instance ----
		rd := &round{want: int32(max), timeout: 5 * time.Second}
		gated := len(m.st) > 0 && !m.cleared
		type res struct {
			c   trace.Call
			out trace.Outcome
		}
		results := make([]res, max)
		var wg sync.WaitGroup
		for j := 0; j < max; j++ {
			wg.Add(1)
			c := trace.Call{Method: []string{trace.MPoolEMMulti, trace.MPoolEMSel, trace.MPoolEM}[r.Intn(3)], Pool: true, EM: m.em}
			if c.Method == trace.MPoolEMSel {
				nmz := append(append([]string{}, alphabet...), "ghost")
				r.Shuffle(len(nmz), func(a, b int) { nmz[a], nmz[b] = nmz[b], nmz[a] })
				c.Names = nmz[:1+r.Intn(len(nmz))]
				// at least one existing rule, otherwise the request never reaches a rule body
				if gated {
					has := false
					for _, n := range c.Names {
						if _, ok := m.st[n]; ok {
							has = true
						}
					}
					if !has {
						c.Names = append(c.Names, m.names()[0])
					}
				}
			}
			j := j
			go func() {
				defer wg.Done()
				o := trace.NewObs()
				lg := trace.NewLog()
				o.Use(lg)
				var once int32
				data := o.Apis()
				if gated {
					data["st"] = func(id int64) {
						if atomic.CompareAndSwapInt32(&once, 0, 1) {
							rd.arrive()
						}
						o.St(id)
					}
				}
				c.Data = data
				results[j] = res{c, t.Invoke(c, lg)}
			}()
		}
		if !waitDone(&wg, progressBound) {
			k.Inconclusive("a round of simultaneous requests did not complete (C17's subject)")
			return
		}
		if gated && atomic.LoadInt32(&rd.failed) == 1 {
			k.Inconclusive(fmt.Sprintf("only %d of %d simultaneous requests reached a rule body within 5 s", atomic.LoadInt32(&rd.arrived), max))
			return
		}
		if gated {
			k.Count("rounds_all_instances_busy_at_once", 1)
		}
		for _, rs := range results {
			k.Eval(1)
			k.Count("instance_executions", 1)
			var fs []trace.Finding
			if m.cleared {
				fs = trace.Check(m.st.ruleSet(), rs.c, rs.out, true)
			} else if len(m.st) == 0 {
				if len(rs.out.Events) > 0 || len(rs.out.Result) > 0 || rs.out.Panic != nil {
					fs = []trace.Finding{{Clause: "once", Msg: fmt.Sprintf("the denoted rule set is empty but the execution ran %d event(s), result %v", len(rs.out.Events), rs.out.Result)}}
				}
			} else {
				fs = trace.Check(m.st.ruleSet(), rs.c, rs.out, false)
			}
			if len(fs) > 0 {
				var es []string
				for _, e := range rs.out.Events {
					es = append(es, e.String())
				}
				viol("execution/"+fs[0].Clause, fmt.Sprintf("an execution (%s, exec model %d) on one of the %d simultaneously busy instances disagrees with the denoted rule set: %s", rs.c.Method, m.em, max, fs[0].Msg),
					map[string]interface{}{"call": rs.c, "events": strings.Join(es, " "), "result": fmt.Sprint(rs.out.Result), "err": fmt.Sprint(rs.out.Err), "findings": fs})
				return
			}
		}
	}
	_, _, _, _, mf, _, seen, _ := shadow.Snapshot()
	k.Max("max_inflight_by_hooks", int64(mf))
	if len(seen) == max {
		k.Count("histories_every_instance_reached", 1)
	}
	k.Distinct(strings.Join(kinds, ","), sz)
	k.Sample(map[string]interface{}{"pool": sz, "ops": kinds, "final_rules": names(m.st), "cleared": m.cleared, "exec_model": m.em})
	waitUntil(progressBound, func() bool {
		_, sc, dn, _, _, _, _, _ := shadow.Snapshot()
		return dn >= sc
	})
}

func trunc(s string, n int) string {
	if len(s) > n {
		return s[:n] + "…"
	}
	return s
}
