package poolmon

import (
	"fmt"
	"math/rand"
	"runtime"
	"sort"
	"strings"
	"sync"
	"sync/atomic"
	"time"

	"github.com/bilibili/gengine/engine"
	"verifharness/fw"
	"verifharness/trace"
)

// ---- versions: the sequential rule-set algebra model ----

var alphabet = []string{"a", "b", "c", "d", "e", "f"}

type verState map[string]*trace.Rule

func (s verState) clone() verState {
	n := verState{}
	for k, v := range s {
		n[k] = v
	}
	return n
}

// clearedKey marks the state after ClearPoolRules: the pool is out of service (executions run nothing and
// return an empty result) until a full or an incremental update brings it back; a removal does not.
const clearedKey = "\x00cleared"

func (s verState) cleared() bool { _, c := s[clearedKey]; return c }

func (s verState) ruleSet() *trace.RuleSet {
	rs := &trace.RuleSet{}
	var names []string
	for n := range s {
		if n == clearedKey {
			continue
		}
		names = append(names, n)
	}
	sort.Strings(names)
	for _, n := range names {
		rs.Rules = append(rs.Rules, s[n])
	}
	return rs
}

// tagger hands out globally unique rule ids (= version tags, = returned values).
type tagger struct{ next int64 }

func (t *tagger) rule(name string, sal int64, body string) *trace.Rule {
	id := int(atomic.AddInt64(&t.next, 1))
	return &trace.Rule{ID: id, Name: name, Sal: sal, HasSal: true, Ret: trace.RetValue, RetVal: int64(id), Version: int64(id)}
}

// ruleText: every rule logs start/end through the REQUEST's observers and returns its tag.
// extra is inserted between st and en (e.g. the call that performs an update).
func ruleText(r *trace.Rule, extra string) string {
	return fmt.Sprintf("rule \"%s\" salience %d begin st(%d) %s en(%d) return %d end\n", r.Name, r.Sal, r.ID, extra, r.ID, r.RetVal)
}

func textOf(rules []*trace.Rule, extraFor map[string]string) string {
	var b strings.Builder
	for _, r := range rules {
		b.WriteString(ruleText(r, extraFor[r.Name]))
	}
	return b.String()
}

type updKind int

const (
	updFull updKind = iota
	updIncremental
	updRemoval
	updFailing
	// updClear: ClearPoolRules - not an update of C07's list, but a state updates start from: the updates
	// that follow it (full or incremental) must be visible once they have returned
	updClear
)

var updNames = []string{"full", "incremental", "removal", "failing", "clear"}

type update struct {
	kind  updKind
	text  string
	names []string
	after verState // state after a successful application
	call  int64
	ret   int64
	ok    bool
	err   error
	// repush: a full update with the text of an earlier full update
	repush bool
	// delta: the rules an incremental update carries (order-independent description of the op)
	delta verState
}

// genUpdate builds the next update against state cur.
func genUpdate(r *rand.Rand, tg *tagger, cur verState, kind updKind, earlier ...*update) *update {
	u := &update{kind: kind}
	switch kind {
	case updFull:
		// a configuration centre re-pushing a text it pushed before (possibly after incremental
		// updates or removals changed the set in between) must install that text again
		var fulls []*update
		for _, e := range earlier {
			if e != nil && e.kind == updFull {
				fulls = append(fulls, e)
			}
		}
		if len(fulls) > 0 && r.Intn(3) == 0 {
			e := fulls[len(fulls)-1]
			if r.Intn(3) == 0 {
				e = fulls[r.Intn(len(fulls))]
			}
			u.text, u.after, u.repush = e.text, e.after, true
			return u
		}
		n := 3 + r.Intn(3)
		names := append([]string{}, alphabet...)
		r.Shuffle(len(names), func(i, j int) { names[i], names[j] = names[j], names[i] })
		st := verState{}
		var rules []*trace.Rule
		for _, nm := range names[:n] {
			ru := tg.rule(nm, int64(r.Intn(7)-3), "")
			st[nm] = ru
			rules = append(rules, ru)
		}
		u.text, u.after = textOf(rules, nil), st
	case updIncremental:
		st := cur.clone()
		delete(st, clearedKey)
		n := 1 + r.Intn(3)
		var rules []*trace.Rule
		used := map[string]bool{}
		for i := 0; i < n; i++ {
			nm := alphabet[r.Intn(len(alphabet))]
			if used[nm] {
				continue
			}
			used[nm] = true
			sal := int64(r.Intn(7) - 3)
			if old, ok := cur[nm]; ok && r.Intn(2) == 0 {
				sal = old.Sal
			}
			ru := tg.rule(nm, sal, "")
			st[nm] = ru
			rules = append(rules, ru)
		}
		u.text, u.after = textOf(rules, nil), st
		u.delta = verState{}
		for _, ru := range rules {
			u.delta[ru.Name] = ru
		}
	case updRemoval:
		st := cur.clone()
		var present []string
		for n := range cur {
			if n != clearedKey {
				present = append(present, n)
			}
		}
		sort.Strings(present)
		// keep at least 3 rules so that every call shape stays meaningful
		k := 0
		if len(present) > 3 {
			k = 1 + r.Intn(len(present)-3)
		}
		r.Shuffle(len(present), func(i, j int) { present[i], present[j] = present[j], present[i] })
		if r.Intn(5) == 0 {
			// everything goes: executions that overlap the removal run the old set or nothing, never a part
			k = len(present)
		}
		u.names = append([]string{}, present[:k]...)
		if r.Intn(3) == 0 || k == 0 {
			u.names = append(u.names, "ghost")
		}
		for _, n := range u.names {
			delete(st, n)
		}
		u.after = st
	case updClear:
		u.after = verState{clearedKey: nil}
	case updFailing:
		switch r.Intn(3) {
		case 0:
			u.text = "rule \"a\" begin st(1) en(1 end"
		case 1:
			ru := tg.rule("a", 1, "")
			u.text = ruleText(ru, "") + ruleText(ru, "") // duplicate name
		default:
			u.text = "rule \"b\" salience x begin end"
		}
		u.after = cur
	}
	return u
}

// applyModel is the sequential rule-set algebra: what an update does to a state.
func applyModel(st verState, u *update) verState {
	switch u.kind {
	case updFull:
		return u.after
	case updIncremental:
		n := st.clone()
		delete(n, clearedKey)
		for k, v := range u.delta {
			n[k] = v
		}
		return n
	case updRemoval:
		n := st.clone()
		for _, k := range u.names {
			delete(n, k)
		}
		return n
	case updClear:
		return verState{clearedKey: nil}
	}
	return st
}

// linearizations enumerates the interleavings of two clients' successful updates that respect
// real time (x before y whenever x returned before y was called).
func linearizations(a, b []*update) [][]*update {
	var out [][]*update
	var rec func(i, j int, cur []*update)
	rec = func(i, j int, cur []*update) {
		if len(out) > 400 {
			return
		}
		if i == len(a) && j == len(b) {
			out = append(out, append([]*update{}, cur...))
			return
		}
		if i < len(a) {
			// a[i] may come next unless some remaining b returned before a[i] was called
			ok := true
			for _, y := range b[j:] {
				if y.ret < a[i].call {
					ok = false
					break
				}
			}
			if ok {
				rec(i+1, j, append(cur, a[i]))
			}
		}
		if j < len(b) {
			ok := true
			for _, x := range a[i:] {
				if x.ret < b[j].call {
					ok = false
					break
				}
			}
			if ok {
				rec(i, j+1, append(cur, b[j]))
			}
		}
	}
	rec(0, 0, nil)
	return out
}

func sigOf(st verState) string { return strings.Join(names(st), ",") }

func apply(p *engine.GenginePool, u *update) error {
	switch u.kind {
	case updFull, updFailing:
		if u.kind == updFailing && strings.Contains(u.text, "salience x") {
			return p.UpdatePooledRulesIncremental(u.text)
		}
		return p.UpdatePooledRules(u.text)
	case updIncremental:
		return p.UpdatePooledRulesIncremental(u.text)
	case updClear:
		p.ClearPoolRules()
		return nil
	default:
		return p.RemoveRules(u.names)
	}
}

// reqObs gives one request its own observers and log.
func reqObs() (*trace.Obs, *trace.Log, map[string]interface{}) {
	o := trace.NewObs()
	lg := trace.NewLog()
	o.Use(lg)
	return o, lg, o.Apis()
}

func genExecCall(r *rand.Rand) trace.Call {
	c := trace.Call{Method: poolMethods[r.Intn(len(poolMethods))], B: r.Intn(2) == 0, Pool: true}
	names := append([]string{}, alphabet...)
	r.Shuffle(len(names), func(i, j int) { names[i], names[j] = names[j], names[i] })
	switch c.Method {
	case trace.MNSortMConc, trace.MNConcMSort, trace.MNConcMConc:
		c.N, c.M = 1, 1+r.Intn(2)
	case trace.MSelNSortMConc, trace.MSelNConcMSort, trace.MSelNConcMConc:
		c.N, c.M = 1, 1+r.Intn(2)
		c.Names = names[:c.N+c.M]
	case trace.MDAG:
		c.DAG = [][]string{names[:2], names[2:4], names[4:]}
	default:
		if c.IsSelected() {
			c.Names = names[:2+r.Intn(4)]
		}
	}
	return c
}

// explain returns nil when version st fully explains the execution.
func explain(st verState, c trace.Call, out trace.Outcome) []trace.Finding {
	var bad []trace.Finding
	if st.cleared() {
		// out of service: nothing runs, nothing is returned (error-nilness is not decided here)
		if len(out.Events) > 0 || len(out.Result) > 0 || out.Panic != nil {
			bad = append(bad, trace.Finding{Clause: trace.ClOnce, Msg: fmt.Sprintf("the pool was cleared, yet the execution ran something: %d event(s), result %v, panic %v", len(out.Events), out.Result, out.Panic)})
		}
		return bad
	}
	for _, f := range trace.Check(st.ruleSet(), c, out, false) {
		switch f.Clause {
		case trace.ClOnce, trace.ClResult, trace.ClSelect, trace.ClWindow, trace.ClDag, trace.ClPanic:
			bad = append(bad, f)
		}
	}
	return bad
}

func emOf(p *engine.GenginePool) int { return p.GetExecModel() }

// ---- probe 1: an update lands between two stages of the very execution that triggers it ----

func runProbe(k *fw.Case, probeIdx int) {
	method := poolMethods[probeIdx%len(poolMethods)]
	kind := updKind((probeIdx / len(poolMethods)) % 3)
	r := k.Rng
	tg := &tagger{next: int64(1000 * (probeIdx + 1))}
	v1 := verState{}
	var rules []*trace.Rule
	for i, nm := range []string{"a", "b", "c", "d"} {
		ru := tg.rule(nm, int64(4-i), "")
		v1[nm] = ru
		rules = append(rules, ru)
	}
	// the rule that runs in the first stage triggers the update: a (highest salience) for every
	// model except inverse-mix, where all but the lowest run first - a as well.
	text := textOf(rules, map[string]string{"a": "upd(1)"})
	var p *engine.GenginePool
	u := genUpdate(r, tg, v1, kind)
	var once int32
	var uerr error
	apis := map[string]interface{}{
		"upd": func(x int64) {
			if atomic.CompareAndSwapInt32(&once, 0, 1) {
				uerr = apply(p, u)
			}
		},
	}
	em := 1 + r.Intn(4)
	err := trace.CompileLocked(func() error {
		var e error
		p, e = engine.NewGenginePool(1, 2, em, text, apis)
		return e
	})
	if err != nil {
		k.Inconclusive("probe text does not compile: " + err.Error())
		return
	}
	c := trace.Call{Method: method, B: true, Pool: true, EM: em}
	switch method {
	case trace.MNSortMConc, trace.MNConcMSort, trace.MNConcMConc:
		c.N, c.M = 1, 2
	case trace.MSelNSortMConc, trace.MSelNConcMSort, trace.MSelNConcMConc:
		c.N, c.M, c.Names = 1, 2, []string{"c", "a", "b"}
	case trace.MDAG:
		c.DAG = [][]string{{"a"}, {"b", "c"}, {"d"}}
	default:
		if c.IsSelected() {
			c.Names = []string{"d", "a", "b", "c"}
		}
	}
	t := &trace.Target{Pool: p}
	_, lg, data := reqObs()
	c.Data = data
	done := make(chan trace.Outcome, 1)
	go func() { done <- t.Invoke(c, lg) }()
	var out trace.Outcome
	select {
	case out = <-done:
	case <-time.After(progressBound):
		k.Violate("pool."+method+"/update-from-inside-a-rule-deadlocks", "an update issued from inside a running rule did not return within the progress bound", dump())
		return
	}
	k.Eval(2)
	k.Count("probes", 1)
	k.Count("probe_"+updNames[kind], 1)
	if atomic.LoadInt32(&once) == 0 {
		k.Inconclusive("the triggering rule did not run")
		return
	}
	if uerr != nil {
		k.Violate("pool."+method+"/update-from-inside-fails", fmt.Sprintf("%s update issued from inside a rule failed: %v", updNames[kind], uerr), nil)
		return
	}
	det := func(o trace.Outcome, fs []trace.Finding) map[string]interface{} {
		var es []string
		for _, e := range o.Events {
			es = append(es, e.String())
		}
		return map[string]interface{}{"v1_text": text, "update_kind": updNames[kind], "update_text": u.text, "update_names": u.names, "call": c, "exec_model": em,
			"events": strings.Join(es, " "), "result": fmt.Sprint(o.Result), "err": fmt.Sprint(o.Err), "findings": fs}
	}
	if fs := explain(v1, c, out); len(fs) > 0 {
		key := "pool." + method + "/torn-by-update-from-inside/" + updNames[kind]
		k.Violate(key, fmt.Sprintf("pool.%s: a %s update landed while the execution ran (issued by its first-stage rule); the execution is not the old version: %s", method, updNames[kind], fs[0].Msg), det(out, fs))
	}
	// the next call must be the new version
	_, lg2, data2 := reqObs()
	c2 := c
	c2.Data = data2
	out2 := t.Invoke(c2, lg2)
	if fs := explain(u.after, c2, out2); len(fs) > 0 {
		k.Violate("pool."+method+"/stale-after-update-returned/"+updNames[kind], fmt.Sprintf("pool.%s: the call after a %s update returned does not run the new version: %s", method, updNames[kind], fs[0].Msg), det(out2, fs))
	}
	k.Distinct("probe", method, updNames[kind])
	if probeIdx == 0 {
		k.Sample(map[string]interface{}{"probe": method, "update": updNames[kind], "result_during": fmt.Sprint(out.Result), "result_after": fmt.Sprint(out2.Result)})
	}
}

// NProbes: 24 methods x {full, incremental, removal}.
const NProbes = 72

// ---- probe 2: concurrent histories ----

type execRec struct {
	c    trace.Call
	out  trace.Outcome
	call int64
	ret  int64
}

type c07Sink struct {
	shadow *Shadow
	l      *lcg
	parked int32
	counts sync.Map
	sigMu  sync.Mutex
	sig    []byte // order of publication / snapshot hook events = interleaving signature of the history
}

func (s *c07Sink) Hook(point string, tag int64) {
	s.shadow.Hook(point, tag)
	if c, ok := map[string]byte{"pool.publish.before": 'B', "pool.publish.instance": 'P', "pool.publish.after": 'A', "pool.prepare.snapshot": 's'}[point]; ok {
		s.sigMu.Lock()
		if len(s.sig) < 4096 {
			s.sig = append(s.sig, c)
		}
		s.sigMu.Unlock()
	}
	switch point {
	case "pool.publish.instance":
		if tag == 0 && atomic.LoadInt32(&s.parked) == 1 {
			time.Sleep(time.Duration(500+s.l.next()%1500) * time.Microsecond)
			return
		}
		if s.l.next()%3 == 0 {
			time.Sleep(time.Duration(s.l.next()%200) * time.Microsecond)
		}
	case "pool.publish.before", "pool.publish.after", "pool.prepare.snapshot":
		switch s.l.next() % 5 {
		case 0:
			runtime.Gosched()
		case 1:
			time.Sleep(time.Duration(s.l.next()%200) * time.Microsecond)
		}
	}
}

func runHistory(k *fw.Case) {
	r := k.Rng
	procs := []int{1, 2, 4, 16}[r.Intn(4)]
	prev := runtime.GOMAXPROCS(procs)
	defer runtime.GOMAXPROCS(prev)
	sz := [][2]int64{{1, 2}, {2, 3}, {2, 4}, {3, 6}}[r.Intn(4)]
	tg := &tagger{next: 100}
	multi := r.Intn(3) == 0 // several updaters: full updates only
	nUpdaters := 1
	if multi {
		nUpdaters = 2 + r.Intn(2)
	}
	s0 := genUpdate(r, tg, verState{}, updFull)
	sink := &c07Sink{shadow: NewShadow(), l: &lcg{s: uint64(r.Int63())}}
	if r.Intn(3) == 0 {
		sink.parked = 1
	}
	SetSink(sink)
	defer SetSink(nil)
	var p *engine.GenginePool
	em := 1 + r.Intn(4)
	err := trace.CompileLocked(func() error {
		var e error
		p, e = engine.NewGenginePool(sz[0], sz[1], em, s0.text, nil)
		return e
	})
	if err != nil {
		k.Inconclusive("history text does not compile: " + err.Error())
		return
	}
	t := &trace.Target{Pool: p}
	var seq int64
	// updates are generated up front per updater (single updater: against the evolving model)
	perUpd := 6 + r.Intn(6)
	if multi {
		perUpd = 4
	}
	updLists := make([][]*update, nUpdaters)
	cur := s0.after
	for ui := 0; ui < nUpdaters; ui++ {
		for j := 0; j < perUpd; j++ {
			kind := updFull
			if !multi {
				kind = updKind(r.Intn(4))
				if r.Intn(9) == 0 {
					kind = updClear
					k.Count("clears_in_histories", 1)
				}
			} else if r.Intn(5) == 0 {
				kind = updFailing
			}
			var earlier []*update
			if !multi {
				earlier = append([]*update{s0}, updLists[ui]...)
			}
			u := genUpdate(r, tg, cur, kind, earlier...)
			if u.repush {
				k.Count("repushed_full_texts", 1)
			}
			if !multi && kind != updFailing {
				cur = u.after
			}
			updLists[ui] = append(updLists[ui], u)
		}
	}
	var stop int32
	var uwg, ewg sync.WaitGroup
	for ui := 0; ui < nUpdaters; ui++ {
		uwg.Add(1)
		list := updLists[ui]
		pause := time.Duration(100+r.Intn(600)) * time.Microsecond
		go func() {
			defer uwg.Done()
			for _, u := range list {
				time.Sleep(pause)
				u.call = atomic.AddInt64(&seq, 1)
				var e error
				// compiles are serialised by the pool's own update lock; the harness lock keeps other
				// harness compiles out
				e = apply(p, u)
				u.ret = atomic.AddInt64(&seq, 1)
				u.err, u.ok = e, e == nil
			}
		}()
	}
	nExec := 4 + r.Intn(9)
	recs := make([][]*execRec, nExec)
	for ei := 0; ei < nExec; ei++ {
		ewg.Add(1)
		rr := rand.New(rand.NewSource(r.Int63()))
		ei := ei
		go func() {
			defer ewg.Done()
			for n := 0; n < 150 && atomic.LoadInt32(&stop) == 0; n++ {
				c := genExecCall(rr)
				c.EM = em
				_, lg, data := reqObs()
				c.Data = data
				rec := &execRec{c: c}
				rec.call = atomic.AddInt64(&seq, 1)
				rec.out = t.Invoke(c, lg)
				rec.ret = atomic.AddInt64(&seq, 1)
				recs[ei] = append(recs[ei], rec)
				if rr.Intn(4) == 0 {
					runtime.Gosched()
				}
			}
		}()
	}
	uwg.Wait()
	// a few executions after the last update returned
	time.Sleep(200 * time.Microsecond)
	atomic.StoreInt32(&stop, 1)
	if !waitDone(&ewg, 3*progressBound) {
		k.Violate("history-wedged", fmt.Sprintf("executions issued next to updates did not return within %v after the last update had returned: the pool serves no version at all any more", 3*progressBound), dump())
		return
	}
	// ---- checker ----
	var ups []*update // successful updates in client order (single updater) / any order (multi)
	for _, l := range updLists {
		for _, u := range l {
			wantOK := u.kind != updFailing
			if u.ok != wantOK {
				if u.kind == updRemoval && !u.ok && len(u.names) == 0 {
					continue
				}
				k.Violate("update-"+updNames[u.kind]+"/error-nilness", fmt.Sprintf("%s update: returned error=%v, expected success=%v", updNames[u.kind], u.err, wantOK), map[string]interface{}{"text": u.text, "names": u.names})
				return
			}
			if u.ok {
				ups = append(ups, u)
			}
		}
	}
	type cand struct {
		st        verState
		call, ret int64
		label     string
	}
	cands := []cand{{s0.after, -1, -1, "initial"}}
	for i, u := range ups {
		cands = append(cands, cand{u.after, u.call, u.ret, fmt.Sprintf("update#%d(%s)", i+1, updNames[u.kind])})
	}
	overlaps := 0
	total := 0
	for _, l := range recs {
		for _, e := range l {
			total++
			// admissible versions
			var adm []int
			for vi, v := range cands {
				if v.call >= e.ret { // (c) the execution returned before this update was called
					continue
				}
				stale := false
				for ui, u := range cands {
					if ui == 0 || ui == vi {
						continue
					}
					// u returned before the execution began and v is definitely older than u
					older := v.ret < u.call
					if !multi {
						older = vi < ui // single updater: program order is the version order
					}
					if u.ret < e.call && older {
						stale = true
						break
					}
				}
				if !stale {
					adm = append(adm, vi)
				}
			}
			for _, u := range ups {
				if u.call < e.ret && u.ret > e.call {
					overlaps++
					break
				}
			}
			okV := -1
			var firstFs []trace.Finding
			for _, vi := range adm {
				fs := explain(cands[vi].st, e.c, e.out)
				if len(fs) == 0 {
					okV = vi
					break
				}
				if firstFs == nil {
					firstFs = fs
				}
			}
			if okV >= 0 {
				continue
			}
			// diagnose: does a non-admissible version explain it?
			diag := "torn"
			for vi := range cands {
				if len(explain(cands[vi].st, e.c, e.out)) == 0 {
					if cands[vi].call >= e.ret {
						diag = "future-version"
					} else {
						diag = "stale-version"
					}
					break
				}
			}
			var es []string
			for _, ev := range e.out.Events {
				es = append(es, ev.String())
			}
			var admL []string
			for _, vi := range adm {
				admL = append(admL, fmt.Sprintf("%s=%v", cands[vi].label, names(cands[vi].st)))
			}
			msg := "no installed version explains the execution"
			if len(firstFs) > 0 {
				msg = firstFs[0].Msg
			}
			k.Violate("pool."+e.c.Method+"/"+diag, fmt.Sprintf("pool.%s [call seq %d..%d]: %s: %s", e.c.Method, e.call, e.ret, diag, msg),
				map[string]interface{}{"call": e.c, "events": strings.Join(es, " "), "result": fmt.Sprint(e.out.Result), "err": fmt.Sprint(e.out.Err),
					"admissible": admL, "pool": fmt.Sprintf("(%d,%d)", sz[0], sz[1]), "gomaxprocs": procs, "updaters": nUpdaters, "parked": sink.parked})
		}
	}
	k.Eval(total)
	k.Count("histories", 1)
	k.Count("executions", int64(total))
	k.Count("updates_successful", int64(len(ups)))
	k.Count("executions_overlapping_an_update", int64(overlaps))
	if overlaps > 0 {
		k.Count("histories_with_overlap", 1)
	}
	_, _, _, _, mf, _, seen, points := sink.shadow.Snapshot()
	for pt, n := range points {
		k.Count("hook_"+pt, n)
	}
	k.Max("max_inflight_by_hooks", int64(mf))
	sink.sigMu.Lock()
	sig := string(sink.sig)
	sink.sigMu.Unlock()
	k.Distinct("history", sz, nUpdaters, len(ups), overlaps/4, len(seen), multi, sink.parked, sig)
	// snapshots taken while a publication was in progress (between its B and A events)
	inPub, during := false, 0
	for _, c := range sig {
		switch c {
		case 'B':
			inPub = true
		case 'A':
			inPub = false
		case 's':
			if inPub {
				during++
			}
		}
	}
	k.Count("snapshots_attempted_during_a_publication", int64(during))
	k.Sample(map[string]interface{}{"pool": sz, "updaters": nUpdaters, "successful_updates": len(ups), "executions": total, "overlapping": overlaps, "gomaxprocs": procs})
	// let asynchronous hand-backs finish before the next case
	waitUntil(progressBound, func() bool {
		_, sc, dn, _, _, _, _, _ := sink.shadow.Snapshot()
		return dn >= sc
	})
}

func names(s verState) []string {
	var out []string
	for n, r := range s {
		if n == clearedKey {
			out = append(out, "(cleared)")
			continue
		}
		out = append(out, fmt.Sprintf("%s:%d", n, r.ID))
	}
	sort.Strings(out)
	return out
}

// RunC07: case indices 0..71 are the deterministic probes (both tiers), the rest histories.
func RunC07(k *fw.Case) {
	if k.Index < NProbes {
		runProbe(k, k.Index)
		return
	}
	if k.Index%3 == 0 {
		runMixedHistory(k)
		return
	}
	runHistory(k)
}

// ---- probe 3: two updaters issuing updates of ALL kinds concurrently ----
//
// The denoted state now depends on the serialisation order of the overlapping updates, which the
// client boundary cannot see. The checker enumerates every interleaving of the two clients'
// successful updates that respects real time and accepts an execution when SOME interleaving has
// a cut, compatible with the execution's own call/return, whose state explains it. Executions
// issued after both updaters have finished must be explained by the FINAL state of some
// interleaving: a lost update (a removal or an incremental change that was overwritten by a
// concurrent update although both calls returned nil) has no such explanation.
func runMixedHistory(k *fw.Case) {
	r := k.Rng
	procs := []int{2, 4, 16}[r.Intn(3)]
	prev := runtime.GOMAXPROCS(procs)
	defer runtime.GOMAXPROCS(prev)
	sz := [][2]int64{{1, 2}, {2, 3}, {2, 4}}[r.Intn(3)]
	tg := &tagger{next: 100}
	s0 := genUpdate(r, tg, verState{}, updFull)
	sink := &c07Sink{shadow: NewShadow(), l: &lcg{s: uint64(r.Int63())}}
	SetSink(sink)
	defer SetSink(nil)
	var p *engine.GenginePool
	em := 1 + r.Intn(4)
	if err := trace.CompileLocked(func() error {
		var e error
		p, e = engine.NewGenginePool(sz[0], sz[1], em, s0.text, nil)
		return e
	}); err != nil {
		k.Inconclusive("history text does not compile: " + err.Error())
		return
	}
	t := &trace.Target{Pool: p}
	var seq int64
	mk := func() []*update {
		var l []*update
		for j := 0; j < 3+r.Intn(2); j++ {
			var u *update
			switch r.Intn(7) {
			case 0, 1:
				u = genUpdate(r, tg, verState{}, updFull)
			case 2, 3, 4:
				u = genUpdate(r, tg, verState{}, updIncremental)
				if r.Intn(2) == 0 {
					// many rules: a long compile widens the window between reading the master set and publishing
					for q := 0; q < 40; q++ {
						nm := fmt.Sprintf("bulk%d", q)
						ru := tg.rule(nm, int64(r.Intn(5)-2), "")
						u.delta[nm] = ru
						u.text += ruleText(ru, "")
					}
				}
			case 5:
				u = &update{kind: updRemoval}
				for _, nm := range alphabet {
					if r.Intn(3) == 0 {
						u.names = append(u.names, nm)
					}
				}
				u.names = append(u.names, "ghost")
			default:
				u = genUpdate(r, tg, verState{}, updFailing)
			}
			l = append(l, u)
		}
		return l
	}
	lists := [][]*update{mk(), mk()}
	var stop int32
	var uwg, ewg sync.WaitGroup
	for ui := 0; ui < 2; ui++ {
		uwg.Add(1)
		list := lists[ui]
		pause := time.Duration(50+r.Intn(400)) * time.Microsecond
		go func() {
			defer uwg.Done()
			for _, u := range list {
				time.Sleep(pause)
				u.call = atomic.AddInt64(&seq, 1)
				e := apply(p, u)
				u.ret = atomic.AddInt64(&seq, 1)
				u.err, u.ok = e, e == nil
			}
		}()
	}
	nExec := 3 + r.Intn(5)
	recs := make([][]*execRec, nExec)
	for ei := 0; ei < nExec; ei++ {
		ewg.Add(1)
		rr := rand.New(rand.NewSource(r.Int63()))
		ei := ei
		go func() {
			defer ewg.Done()
			after := 0
			for n := 0; n < 200; n++ {
				if atomic.LoadInt32(&stop) == 1 {
					after++
					if after > 4 {
						return
					}
				}
				c := genExecCall(rr)
				c.EM = em
				_, lg, data := reqObs()
				c.Data = data
				rec := &execRec{c: c}
				rec.call = atomic.AddInt64(&seq, 1)
				rec.out = t.Invoke(c, lg)
				rec.ret = atomic.AddInt64(&seq, 1)
				recs[ei] = append(recs[ei], rec)
				if rr.Intn(3) == 0 {
					time.Sleep(time.Duration(rr.Intn(150)) * time.Microsecond)
				}
			}
		}()
	}
	uwg.Wait()
	atomic.StoreInt32(&stop, 1)
	if !waitDone(&ewg, 3*progressBound) {
		k.Inconclusive("executors did not stop")
		return
	}
	var succ [2][]*update
	for ui, l := range lists {
		for _, u := range l {
			if u.ok != (u.kind != updFailing) {
				k.Violate("update-"+updNames[u.kind]+"/error-nilness", fmt.Sprintf("%s update: returned error=%v", updNames[u.kind], u.err), map[string]interface{}{"text": trunc(u.text, 300), "names": u.names})
				return
			}
			if u.ok {
				succ[ui] = append(succ[ui], u)
			}
		}
	}
	lins := linearizations(succ[0], succ[1])
	if len(lins) == 0 || len(lins) > 400 {
		k.Inconclusive(fmt.Sprintf("%d interleavings of the updates: not checked", len(lins)))
		return
	}
	type linStates struct {
		ops    []*update
		states []verState
	}
	var ls []linStates
	for _, l := range lins {
		st := []verState{s0.after}
		cur := s0.after
		for _, u := range l {
			cur = applyModel(cur, u)
			st = append(st, cur)
		}
		ls = append(ls, linStates{l, st})
	}
	total, post := 0, 0
	for _, l := range recs {
		for _, e := range l {
			total++
			cands := map[string]verState{}
			for _, x := range ls {
				lo, hi := 0, len(x.ops)
				for i, u := range x.ops {
					if u.ret < e.call && i+1 > lo {
						lo = i + 1
					}
				}
				for i, u := range x.ops {
					if u.call > e.ret {
						hi = i
						break
					}
				}
				for c := lo; c <= hi; c++ {
					cands[sigOf(x.states[c])] = x.states[c]
				}
			}
			isPost := true
			for _, u := range append(append([]*update{}, succ[0]...), succ[1]...) {
				if !(u.ret < e.call) {
					isPost = false
				}
			}
			if isPost {
				post++
			}
			explained := false
			var firstFs []trace.Finding
			for _, st := range cands {
				fs := explain(st, e.c, e.out)
				if len(fs) == 0 {
					explained = true
					break
				}
				if firstFs == nil {
					firstFs = fs
				}
			}
			if explained {
				continue
			}
			var es []string
			for _, ev := range e.out.Events {
				es = append(es, ev.String())
			}
			var cl []string
			for sg := range cands {
				cl = append(cl, sg)
			}
			sort.Strings(cl)
			kind := "during-updates"
			if isPost {
				kind = "after-all-updates-returned"
			}
			msg := ""
			if len(firstFs) > 0 {
				msg = firstFs[0].Msg
			}
			var ops []string
			for ui := range succ {
				for _, u := range succ[ui] {
					ops = append(ops, fmt.Sprintf("client%d %s [%d..%d] names=%v rules=%v", ui, updNames[u.kind], u.call, u.ret, u.names, names(u.delta)))
				}
			}
			k.Violate("mixed-updates/"+kind+"/pool."+e.c.Method, fmt.Sprintf("pool.%s [seq %d..%d], %s: no interleaving of the concurrent updates (%d considered) has a state that explains this execution: %s", e.c.Method, e.call, e.ret, kind, len(lins), msg),
				map[string]interface{}{"call": e.c, "events": strings.Join(es, " "), "result": fmt.Sprint(e.out.Result), "candidate_states": capStrings(cl, 12), "updates": ops, "initial": names(s0.after), "pool": fmt.Sprint(sz), "gomaxprocs": procs})
			return
		}
	}
	k.Eval(total)
	k.Count("mixed_histories", 1)
	k.Count("histories", 1)
	k.Count("executions", int64(total))
	k.Count("executions_after_all_updates", int64(post))
	k.Count("interleavings_considered", int64(len(lins)))
	k.Count("updates_successful", int64(len(succ[0])+len(succ[1])))
	overl := 0
	for _, a := range succ[0] {
		for _, b := range succ[1] {
			if a.call < b.ret && b.call < a.ret {
				overl++
			}
		}
	}
	k.Count("pairs_of_overlapping_updates", int64(overl))
	if overl > 0 {
		k.Count("histories_with_overlap", 1)
	}
	k.Distinct("mixed", sz, len(lins), overl, total/20)
	waitUntil(progressBound, func() bool {
		_, sc, dn, _, _, _, _, _ := sink.shadow.Snapshot()
		return dn >= sc
	})
}

func capStrings(l []string, n int) []string {
	if len(l) > n {
		return l[:n]
	}
	return l
}
