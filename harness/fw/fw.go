// Package fw is the small framework shared by the coordinator (vcheck) and the
// workers (vworker): case numbering, per-case PRNG derivation, result records,
// journals. It does not import gengine.
package fw

import (
	"encoding/json"
	"fmt"
	"hash/fnv"
	"math/rand"
	"os"
	"sort"
	"sync"
)

// Violation is one refuting observation.
type Violation struct {
	Property string      `json:"property"`
	Key      string      `json:"key"`  // stable identity used by KNOWN_FINDINGS.jsonl
	What     string      `json:"what"` // one line for humans
	Tier     string      `json:"tier"`
	Seed     int64       `json:"seed"`
	Case     int         `json:"case"` // global case index: replay = (property, tier, seed, case)
	Detail   interface{} `json:"detail,omitempty"`
}

// BatchResult is what one worker process (segment) reports.
type BatchResult struct {
	Property     string           `json:"property"`
	Tier         string           `json:"tier"`
	Seed         int64            `json:"seed"`
	Batch        int              `json:"batch"`
	NBatch       int              `json:"nbatch"`
	From         int              `json:"from"`
	Evaluations  int64            `json:"evaluations"`
	Cases        int64            `json:"cases"`
	Hashes       []uint64         `json:"hashes"`
	Counters     map[string]int64 `json:"counters"`
	Max          map[string]int64 `json:"max"`
	Samples      []interface{}    `json:"samples"`
	Violations   []Violation      `json:"violations"`
	Inconclusive []string         `json:"inconclusive"`
	Done         bool             `json:"done"`
	NextCase     int              `json:"next_case"` // first case index of this batch not yet run (when !Done)
	HungCase     int              `json:"hung_case"` // -1 unless the per-case watchdog fired
	HangDump     string           `json:"hang_dump,omitempty"`
}

// Collector accumulates observations of one worker process; safe for concurrent use.
type Collector struct {
	mu      sync.Mutex
	res     BatchResult
	hashes  map[uint64]struct{}
	journal *os.File
	maxSamp int
}

func NewCollector(prop, tier string, seed int64, batch, nbatch, from int, journal *os.File) *Collector {
	return &Collector{
		res: BatchResult{Property: prop, Tier: tier, Seed: seed, Batch: batch, NBatch: nbatch, From: from,
			Counters: map[string]int64{}, Max: map[string]int64{}, HungCase: -1},
		hashes:  map[uint64]struct{}{},
		journal: journal,
		maxSamp: 3,
	}
}

func (c *Collector) jwrite(s string) {
	if c.journal != nil {
		c.journal.WriteString(s) // unbuffered write(2): survives a process crash
	}
}

func (c *Collector) Result() BatchResult {
	c.mu.Lock()
	defer c.mu.Unlock()
	r := c.res
	r.Hashes = make([]uint64, 0, len(c.hashes))
	for h := range c.hashes {
		r.Hashes = append(r.Hashes, h)
	}
	sort.Slice(r.Hashes, func(i, j int) bool { return r.Hashes[i] < r.Hashes[j] })
	return r
}

// Case is the context handed to a property family for one case.
type Case struct {
	Prop  string
	Tier  string
	Seed  int64
	Index int
	Rng   *rand.Rand
	col   *Collector
	Replay bool // true when re-running a recorded case: families may print more
	// Mute turns Violate into a counter: used when a scenario family runs only as a workload
	// under the race detector (C19) and its own oracle belongs to another property.
	Mute bool
}

func SeedFor(prop, tier string, seed int64, index int) int64 {
	h := fnv.New64a()
	fmt.Fprintf(h, "%s|%s|%d|%d", prop, tier, seed, index)
	return int64(h.Sum64() & 0x7fffffffffffffff)
}

func (c *Collector) NewCase(index int, replay bool) *Case {
	return &Case{Prop: c.res.Property, Tier: c.res.Tier, Seed: c.res.Seed, Index: index,
		Rng: rand.New(rand.NewSource(SeedFor(c.res.Property, c.res.Tier, c.res.Seed, index))), col: c, Replay: replay}
}

func (c *Collector) Begin(index int) { c.jwrite(fmt.Sprintf("B %d\n", index)) }
func (c *Collector) End(index int) {
	c.mu.Lock()
	c.res.Cases++
	c.mu.Unlock()
	c.jwrite(fmt.Sprintf("E %d\n", index))
}

// Violate records a violation of the case's property.
func (k *Case) Violate(key, what string, detail interface{}) {
	k.ViolateProp(k.Prop, key, what, detail)
}

func (k *Case) ViolateProp(prop, key, what string, detail interface{}) {
	if k.Mute {
		k.Count("findings_of_other_properties_muted", 1)
		return
	}
	v := Violation{Property: prop, Key: key, What: what, Tier: k.Tier, Seed: k.Seed, Case: k.Index, Detail: detail}
	c := k.col
	c.mu.Lock()
	// keep at most 40 full violations per process; count the rest
	if len(c.res.Violations) < 40 {
		c.res.Violations = append(c.res.Violations, v)
	}
	c.res.Counters["violations_total"]++
	c.mu.Unlock()
	b, _ := json.Marshal(v)
	c.jwrite("V " + string(b) + "\n")
}

func (k *Case) Inconclusive(why string) {
	c := k.col
	c.mu.Lock()
	c.res.Counters["inconclusive_cases"]++
	if len(c.res.Inconclusive) < 20 {
		c.res.Inconclusive = append(c.res.Inconclusive, fmt.Sprintf("case %d: %s", k.Index, why))
	}
	c.mu.Unlock()
}

// Eval adds n to the number of evaluations (executions / inputs tried).
func (k *Case) Eval(n int) {
	k.col.mu.Lock()
	k.col.res.Evaluations += int64(n)
	k.col.mu.Unlock()
}

func (k *Case) Count(name string, n int64) {
	k.col.mu.Lock()
	k.col.res.Counters[name] += n
	k.col.mu.Unlock()
}

func (k *Case) Max(name string, v int64) {
	k.col.mu.Lock()
	if v > k.col.res.Max[name] {
		k.col.res.Max[name] = v
	}
	k.col.mu.Unlock()
}

// Distinct registers a structural signature of a non-trivial case; the number of
// distinct signatures is what evidence reports as distinct_nontrivial.
func (k *Case) Distinct(parts ...interface{}) {
	h := fnv.New64a()
	fmt.Fprint(h, parts...)
	v := h.Sum64()
	k.col.mu.Lock()
	k.col.hashes[v] = struct{}{}
	k.col.mu.Unlock()
}

// Sample keeps a few actual cases for the evidence file.
func (k *Case) Sample(v interface{}) {
	k.col.mu.Lock()
	if len(k.col.res.Samples) < k.col.maxSamp {
		k.col.res.Samples = append(k.col.res.Samples, v)
	}
	k.col.mu.Unlock()
}

func (c *Collector) SetDone(done bool, next int) {
	c.mu.Lock()
	c.res.Done = done
	c.res.NextCase = next
	c.mu.Unlock()
}

func (c *Collector) SetHang(index int, dump string) {
	c.mu.Lock()
	c.res.HungCase = index
	c.res.HangDump = dump
	c.mu.Unlock()
}

func (c *Collector) AddInconclusive(s string) {
	c.mu.Lock()
	c.res.Counters["inconclusive_cases"]++
	if len(c.res.Inconclusive) < 20 {
		c.res.Inconclusive = append(c.res.Inconclusive, s)
	}
	c.mu.Unlock()
}

func (c *Collector) AddViolation(v Violation) {
	c.mu.Lock()
	if len(c.res.Violations) < 40 {
		c.res.Violations = append(c.res.Violations, v)
	}
	c.res.Counters["violations_total"]++
	c.mu.Unlock()
	b, _ := json.Marshal(v)
	c.jwrite("V " + string(b) + "\n")
}
