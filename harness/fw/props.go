package fw

// Spec is the static description of one property check, shared by coordinator and worker.
type Spec struct {
	ID    string
	Level string // exploration | fault_enumeration
	// Cases per tier (global case indices 0..n-1 are split round-robin over the batches).
	Quick    int
	Thorough int
	// CaseTimeoutS: per-case watchdog inside the worker (bounded-progress deadline where the
	// property is about termination, otherwise expiry is "inconclusive").
	CaseTimeoutS int
	// HangIsViolation / CrashIsViolation: the property itself promises termination / no crash.
	HangIsViolation  bool
	CrashIsViolation bool
	Race             bool // build and run the worker with -race and classify race reports
	MaxProcs         int  // number of worker processes (0 = 16)
	Rule             string
	Assumptions      []string
	// MinCounters: observation thresholds; a run below them is reported INCONCLUSIVE (exit stays 0
	// unless nothing at all was observed).
	MinCounters map[string]int64
	// Exhaustive is set when the case list enumerates a finite catalog completely.
	Exhaustive bool
}

var Specs = map[string]*Spec{}

func Reg(s *Spec) {
	if s.CaseTimeoutS == 0 {
		s.CaseTimeoutS = 60
	}
	Specs[s.ID] = s
}

func (s *Spec) Total(tier string) int {
	if tier == "thorough" {
		return s.Thorough
	}
	return s.Quick
}

// RunFunc executes one case of a property family.
type RunFunc func(k *Case)

// Families is filled by the init functions of the family packages linked into vworker.
var Families = map[string]RunFunc{}
