package trace

import (
	"fmt"
	"sync"
	"sync/atomic"
	"time"

	"github.com/bilibili/gengine/builder"
	"github.com/bilibili/gengine/context"
	"github.com/bilibili/gengine/engine"
	"verifharness/fw"
)

// leakBox is created per rule execution and kept in a local.
type leakBox struct {
	v int64
	W int64 // read as lbx.W: a dotted name headed by a local
}

func (b *leakBox) Put(d int64) { b.v += d }
func (b *leakBox) Get() int64  { return b.v }

// LeakProbe (C15): a local assigned in ONE execution of a rule must be undefined in every
// other execution of the same rule - a later call on the same engine, a later request on the
// same pooled instance, a concurrently running execution of the same rule.
//
//	rule "leak": if once() { secret = <tag> }  hold()  probe(secret)
//
// once() is true for exactly one execution per round; every other execution must fail at
// probe(secret) because it never assigned `secret` itself.
func LeakProbe(k *fw.Case) {
	var armed int32
	var mu sync.Mutex
	var probed []int64
	var inHold int32
	once := func() bool { return atomic.CompareAndSwapInt32(&armed, 1, 0) }
	probe := func(v int64) {
		mu.Lock()
		probed = append(probed, v)
		mu.Unlock()
	}
	// hold: the execution that assigned the local waits a little so that a concurrent
	// execution of the same rule reads the local store meanwhile
	hold := func(assigned bool) {
		if assigned {
			atomic.StoreInt32(&inHold, 1)
			time.Sleep(300 * time.Microsecond)
			atomic.StoreInt32(&inHold, 0)
		}
	}
	text := `
rule "leak" salience 5 begin
  got = once()
  if got { secret = 4242 }
  hold(got)
  lsum = 0
  for li = 0; li < 40; li += 1 {
    lsum = lsum + li
  }
  probe9(lsum)
  probe(secret)
end
rule "dirty" salience 4 begin
  secret2 = 31337
  if secret2 { zq = 1 }
end
rule "other" salience 3 begin
  probe(secret)
end
rule "other2" salience 2 begin
  probe2(secret2)
end
rule "third" salience 1 begin
  secret = 99
  zq = secret + 1
end
rule "elseonly" salience 8 begin
  if off() {
    nothing()
  } else if off() {
    nothing()
  } else {
    secret3 = 555
  }
end
rule "other3" salience 0 begin
  probe2(secret3)
end
rule "fnholder" salience 7 begin
  hfn = pickdouble()
  probe5(hfn(4), 8)
end
rule "fnholder2" salience 6 begin
  hfn = picktriple()
  probe5(hfn(4), 12)
end
rule "fncaller" salience -1 begin
  probe4(hfn(4))
end
rule "writer" salience 9 begin
  Shared.V = Shared.V + 1
end
rule "reader" salience -9 begin
  probe3(Shared.V)
end
rule "arr" salience -14 begin
  Shared.Arr[1] = 77
end
rule "boxa" salience -15 begin
  lbx = mkbox(1)
  lbx.Put(10)
  probe10(lbx.Get(), 11)
end
rule "boxb" salience -16 begin
  lbx = mkbox(2)
  lbx.Put(20)
  probe10(lbx.Get(), 22)
  probe10(lbx.W, 2)
end
rule "boxc" salience -17 begin
  probe4(lbx.W)
end
rule "nest" salience -13 begin
  forRange b1 := Shared.Tags2 {
    if b1 == 0 { break }
  }
  ncnt = 0
  forRange o1 := Shared.Tags2 {
    forRange i1 := Shared.Tags2 {
      ncnt += 1
    }
  }
  probe8(ncnt)
end
rule "opt" salience -12 begin
  Opt = 7
end
rule "keeper" salience -10 begin
  kept = Shared.Tags
  Shared.Tags = Shared.Tags2
  probe6(kept[0], Shared.Tags[0])
  alias = Shared.Tags2
  alias[1] = 4242
end
rule "walker" salience -18 begin
  forRange fwk := Shared.Tags2 {
    nothing()
  }
end
rule "walkprobe" salience -19 begin
  probe11(fwk)
end
rule "looper" salience -11 begin
  forRange Cur := Shared.Tags2 {
    lpn = 1
  }
end
`
	var probed2 int64
	probe2 := func(v int64) { atomic.AddInt64(&probed2, 1) }
	// injected names, in contrast, are shared by all rules of a call: what the highest-priority
	// rule stores into Shared.V is what the lowest-priority rule reads (sort model)
	type sharedT struct {
		V           int64
		Tags, Tags2 []int64
		Arr         [3]int64
	}
	shared := &sharedT{}
	// a local keeps the VALUE it was given (here: a slice) when the injected field it came from is replaced,
	// and a loop variable that names injected data is that injected data (shared by all rules, seen by the host)
	var seen6 [][2]int64
	probe6 := func(a, b int64) {
		mu.Lock()
		seen6 = append(seen6, [2]int64{a, b})
		mu.Unlock()
	}
	cur := new(int64)
	// loops keep nothing between executions: after a loop that was left by break, two nested loops over a
	// 3-element slice make 9 inner passes
	var seen8 []int64
	probe8 := func(n int64) {
		mu.Lock()
		seen8 = append(seen8, n)
		mu.Unlock()
	}
	var seen3 []int64
	probe3 := func(v int64) {
		mu.Lock()
		seen3 = append(seen3, v)
		mu.Unlock()
	}
	// locals holding FUNCTION values: calling a local function is resolved by name too
	var probed4, wrong5 int64
	var seen5 atomic.Value
	probe4 := func(v int64) { atomic.AddInt64(&probed4, 1) }
	var calls5 int64
	probe5 := func(got, want int64) {
		atomic.AddInt64(&calls5, 1)
		if got != want {
			atomic.AddInt64(&wrong5, 1)
			seen5.Store(fmt.Sprintf("got %d, the rule's own function gives %d", got, want))
		}
	}
	// a counting loop of one execution is nobody else's: 0+1+...+39 = 780, however many executions of the rule overlap
	var bad9 int64
	probe9 := func(v int64) {
		if v != 780 {
			atomic.AddInt64(&bad9, 1)
		}
	}
	// a method called on a LOCAL receiver runs on the object this execution put there
	var bad10 int64
	var seen10 atomic.Value
	probe10 := func(got, want int64) {
		if got != want {
			atomic.AddInt64(&bad10, 1)
			seen10.Store(fmt.Sprintf("got %d, the rule's own object gives %d", got, want))
		}
	}
	// the key of a forRange is a local like any other, also in a rule that has no assignment statement at all
	var probed11 int64
	probe11 := func(v int64) { atomic.AddInt64(&probed11, 1) }
	apis := map[string]interface{}{"probe11": probe11, "probe10": probe10, "mkbox": func(v int64) *leakBox { return &leakBox{v: v, W: v} }, "probe9": probe9, "probe8": probe8, "probe6": probe6, "Cur": cur, "probe4": probe4, "probe5": probe5,
		"pickdouble": func() func(int64) int64 { return func(x int64) int64 { return 2 * x } },
		"picktriple": func() func(int64) int64 { return func(x int64) int64 { return 3 * x } },
		"once":       once, "probe": probe, "hold": hold, "probe2": probe2, "probe3": probe3, "Shared": shared,
		"off": func() bool { return false }, "nothing": func() {}}
	dc := context.NewDataContext()
	for n, v := range apis {
		dc.Add(n, v)
	}
	rb := builder.NewRuleBuilder(dc)
	if err := CompileLocked(func() error { return rb.BuildRuleFromString(text) }); err != nil {
		k.Inconclusive("leak probe text does not compile: " + err.Error())
		return
	}
	eng := engine.NewGengine()
	var pool *engine.GenginePool
	if err := CompileLocked(func() error {
		var e error
		pool, e = engine.NewGenginePool(1, 2, engine.SortModel, text, apis)
		return e
	}); err != nil {
		k.Inconclusive("leak probe text does not compile in a pool")
		return
	}
	var pool4 *engine.GenginePool
	if err := CompileLocked(func() error {
		var e error
		pool4, e = engine.NewGenginePool(3, 6, engine.SortModel, text, apis)
		return e
	}); err != nil {
		k.Inconclusive("leak probe text does not compile in a pool")
		return
	}
	round := func(label string, run func()) {
		mu.Lock()
		probed = nil
		mu.Unlock()
		atomic.StoreInt32(&armed, 1)
		func() {
			defer func() {
				if p := recover(); p != nil {
					k.Count("leak_probe_panics", 1)
				}
			}()
			run()
		}()
		mu.Lock()
		got := append([]int64{}, probed...)
		mu.Unlock()
		k.Eval(1)
		k.Count("leak_probe_rounds", 1)
		// exactly one execution assigned the local itself and may probe it
		if len(got) > 1 || (len(got) == 1 && got[0] != 4242) {
			k.Violate("local-leaks/"+label, fmt.Sprintf("%s: probe(secret) was reached %d times with values %v, but only the one execution that assigned the local itself may read it", label, len(got), got),
				map[string]interface{}{"rule_text": text, "scenario": label})
		}
		if n := atomic.SwapInt64(&probed11, 0); n > 0 {
			k.Violate("loop-key-leaks/"+label, fmt.Sprintf("%s: the key of `forRange fwk := Shared.Tags2 {...}` in rule \"walker\" (a rule without any assignment statement) was readable by rule \"walkprobe\", which never assigned it, %d time(s)", label, n),
				map[string]interface{}{"rule_text": text, "scenario": label})
		}
		if n := atomic.SwapInt64(&probed2, 0); n > 0 {
			k.Violate("local-survives-fault/"+label, fmt.Sprintf("%s: a local assigned by another rule (one that then faulted with a non-boolean condition, or one that assigns it only in its else branch) was readable by a rule that never assigned it, %d time(s)", label, n),
				map[string]interface{}{"rule_text": text, "scenario": label})
		}
		if n := atomic.SwapInt64(&probed4, 0); n > 0 {
			k.Violate("function-local-leaks/"+label, fmt.Sprintf("%s: a rule that never assigned the local hfn could call it %d time(s) (the function value another rule / an earlier call kept in its own local hfn)", label, n),
				map[string]interface{}{"rule_text": text, "scenario": label})
		}
		if n := atomic.SwapInt64(&wrong5, 0); n > 0 {
			k.Violate("function-local-foreign/"+label, fmt.Sprintf("%s: a rule that assigned its own function to the local hfn called another one %d time(s): %v", label, n, seen5.Load()),
				map[string]interface{}{"rule_text": text, "scenario": label})
		}
		if n := atomic.SwapInt64(&bad9, 0); n > 0 {
			k.Violate("loop-variable-shared/"+label, fmt.Sprintf("%s: the counting loop `for li = 0; li < 40; li += 1 { lsum = lsum + li }` of the rule gave another sum than 780 in %d execution(s): its loop variable or its accumulator is not its own", label, n),
				map[string]interface{}{"rule_text": text, "scenario": label})
		}
		if n := atomic.SwapInt64(&bad10, 0); n > 0 {
			k.Violate("method-on-foreign-local/"+label, fmt.Sprintf("%s: `lbx = mkbox(n)  lbx.Put(..)  lbx.Get()` ran on an object another execution had put into ITS local lbx, %d time(s): %v", label, n, seen10.Load()),
				map[string]interface{}{"rule_text": text, "scenario": label})
		}
		k.Count("calls_of_function_valued_locals", atomic.SwapInt64(&calls5, 0))
		k.Distinct("leak", label, len(got))
	}
	// (1) later calls on the same engine: first call assigns, the following must not see it
	round("later-call-same-engine", func() {
		eng.Execute(rb, true)
		eng.Execute(rb, true)
		eng.ExecuteSelectedRules(rb, []string{"leak"})
	})
	// (1b) injected data written by an earlier rule is visible to a later rule of the same call
	{
		mu.Lock()
		seen3 = nil
		mu.Unlock()
		shared.V = 40
		shared.Tags, shared.Tags2 = []int64{11, 12}, []int64{21, 22, 23}
		*cur = -5
		mu.Lock()
		seen6, seen8 = nil, nil
		mu.Unlock()
		eng.Execute(rb, true)
		eng.ExecuteSelectedRules(rb, []string{"nest"})
		mu.Lock()
		s8 := append([]int64{}, seen8...)
		mu.Unlock()
		if len(s8) != 2 || s8[0] != 9 || s8[1] != 9 {
			k.Violate("loop-state-kept", fmt.Sprintf("a loop left by break, then two nested loops over a 3-element slice: inner passes counted %v, expected [9 9]", s8), map[string]interface{}{"rule_text": text})
		}
		mu.Lock()
		s6 := append([][2]int64{}, seen6...)
		seen6 = nil
		mu.Unlock()
		if len(s6) != 1 || s6[0] != [2]int64{11, 21} {
			k.Violate("local-follows-injected-data", fmt.Sprintf("`kept = Shared.Tags  Shared.Tags = Shared.Tags2  probe6(kept[0], Shared.Tags[0])` observed %v, expected [[11 21]]: the local is the value it was given", s6),
				map[string]interface{}{"rule_text": text})
		}
		if shared.Arr[1] != 77 {
			k.Violate("injected-array-not-shared", fmt.Sprintf("`Shared.Arr[1] = 77` (an array-typed field of injected data): the host sees Shared.Arr = %v", shared.Arr), map[string]interface{}{"rule_text": text})
		}
		shared.Arr = [3]int64{}
		if shared.Tags2[1] != 4242 {
			k.Violate("injected-slice-not-shared", fmt.Sprintf("`alias = Shared.Tags2  alias[1] = 4242`: the host sees Shared.Tags2 = %v - a local that holds an injected slice refers to the injected elements", shared.Tags2),
				map[string]interface{}{"rule_text": text})
		}
		if *cur != 2 {
			k.Violate("injected-loop-variable-not-shared", fmt.Sprintf("`forRange Cur := Shared.Tags2 {...}` with Cur injected as a pointer: the host sees Cur = %d afterwards, expected the last index 2", *cur),
				map[string]interface{}{"rule_text": text})
		}
		shared.Tags, shared.Tags2 = []int64{11, 12}, []int64{21, 22, 23}
		// Opt was a rule local in every call so far; now the caller injects it (an optional in/out parameter):
		// the same assignment stores through the injected pointer, and stops doing so once it is removed again
		opt := new(int64)
		dc.Add("Opt", opt)
		eng.ExecuteSelectedRules(rb, []string{"opt"})
		if *opt != 7 {
			k.Violate("injected-name-was-a-local-before", fmt.Sprintf("`Opt = 7` ran with Opt injected as a pointer (it was a rule local in the earlier calls): the host sees %d", *opt), map[string]interface{}{"rule_text": text})
		}
		*opt = 0
		dc.Del("Opt")
		eng.ExecuteSelectedRules(rb, []string{"opt"})
		if *opt != 0 {
			k.Violate("injected-name-was-a-local-before", fmt.Sprintf("after Opt was removed again the rule still stored through the old pointer: %d", *opt), map[string]interface{}{"rule_text": text})
		}
		eng.ExecuteSelectedRulesWithControlAsGivenSortedName(rb, true, []string{"writer", "reader"})
		mu.Lock()
		got := append([]int64{}, seen3...)
		mu.Unlock()
		k.Eval(1)
		if len(got) != 2 || got[0] != 41 || got[1] != 42 {
			k.Violate("injected-not-shared", fmt.Sprintf("a value stored into injected data by the first rule of a sort-model call was not what the last rule read: reads %v, expected [41 42]", got),
				map[string]interface{}{"rule_text": text})
		}
	}
	// (2) every model once after an assigning sort call
	round("later-call-other-models", func() {
		eng.Execute(rb, true)
		eng.ExecuteConcurrent(rb)
		eng.ExecuteMixModel(rb)
		eng.ExecuteInverseMixModel(rb)
		eng.ExecuteNConcurrentMConcurrent(1, 2, rb, true)
		eng.ExecuteDAGModel(rb, [][]string{{"leak"}, {"dirty"}, {"other", "third", "other2"}})
	})
	// (3) two concurrent executions of the same rule (same DAG layer)
	round("concurrent-executions-of-one-rule", func() {
		eng.ExecuteDAGModel(rb, [][]string{{"leak", "leak", "leak"}})
	})
	// (4) later request on the same pooled instance, and overlapping requests
	round("later-request-same-pool-instance", func() {
		pool.Execute(map[string]interface{}{}, true)
		pool.Execute(map[string]interface{}{}, true)
		pool.ExecuteSelectedRules(map[string]interface{}{}, []string{"leak", "other"})
	})
	round("overlapping-pool-requests", func() {
		var wg sync.WaitGroup
		for i := 0; i < 3; i++ {
			wg.Add(1)
			go func() {
				defer wg.Done()
				pool.ExecuteSelectedRules(map[string]interface{}{}, []string{"leak"})
			}()
		}
		wg.Wait()
	})
	// (5) the first executions of freshly compiled rules, arriving together (after a hot update)
	for rep := 0; rep < 3; rep++ {
		if err := CompileLocked(func() error { return pool4.UpdatePooledRules(text) }); err != nil {
			break
		}
		round("burst-after-hot-update", func() {
			var wg sync.WaitGroup
			start := make(chan struct{})
			for i := 0; i < 6; i++ {
				wg.Add(1)
				go func() {
					defer wg.Done()
					<-start
					pool4.ExecuteSelectedRules(map[string]interface{}{}, []string{"leak"})
				}()
			}
			close(start)
			wg.Wait()
		})
	}
	time.Sleep(100 * time.Microsecond)
}
