package trace

import (
	"fmt"
	"math/rand"
	"reflect"
	"runtime"
	"strings"
	"sync"
	"sync/atomic"

	"verifharness/fw"
)

// ---- C09: fault catalog (fault kind x construct) driven through every entry point ----

// FaultData is injected for the catalog.
type FaultInner struct{ X int64 }

func (i FaultInner) Add(a, b int) int { return a + b }
func (i FaultInner) Boom3() int64     { panic("injected three-level method panics on purpose") }

type FaultObj struct {
	F      int64
	hidden int64
	In     FaultInner
}

func (o *FaultObj) Boom() int64      { panic("injected method panics on purpose") }
func (o *FaultObj) Get() int64       { return o.F }
func (o *FaultObj) Two(a, b int) int { return a + b }

type FaultVal struct{ F int64 }

// FaultLevel is a named integer type: a value of kind int64 but another type cannot be Set into it.
type FaultLevel int64

type FaultOther struct{ G int64 }

func faultApis() map[string]interface{} {
	var nilP *FaultInner
	var nilM map[string]int64
	return map[string]interface{}{
		"NilP":        nilP,
		"NilM":        nilM,
		"FVS":         []int64{1, 2, 3},
		"Zero0":       int64(0),
		"UZero":       uint64(0),
		"UNum":        uint8(9),
		"FZero":       float64(0),
		"Num":         int64(7),
		"Val":         FaultVal{F: 1},
		"Obj":         &FaultObj{F: 5, hidden: 9},
		"FM":          map[string]int64{"a": 1},
		"two":         func(a, b int) int { return a + b },
		"boom":        func() int64 { panic("injected function panics on purpose") },
		"boomi":       func() int64 { panic(42) },
		"booms":       func() int64 { panic(struct{ Code int }{7}) },
		"boome":       func() int64 { panic(fmt.Errorf("an error value as panic argument")) },
		"Str":         "text",
		"PLevel":      new(FaultLevel),
		"PVal":        &FaultVal{F: 2},
		"Other":       FaultOther{G: 1},
		"LevelHolder": &struct{ L FaultLevel }{},
	}
}

type faultKind struct {
	name string
	// exactly one of these is set
	num  string // expression that would be a number
	bol  string // expression used as a condition
	stmt string // statement (assignment or call: also legal inside conc)
	pre  string // statements needed before (locals)
	rng  string // forRange target (a variable name)
	loop bool   // unbounded for statement
	// only: when non-empty the fault exists only in these constructs (e.g. a non-boolean is a
	// fault only where a condition is required; break is a fault only outside loops)
	only []string
}

var faultKinds = []faultKind{
	{name: "non-bool-condition", bol: "5", only: []string{"if-condition", "else-if-condition", "for-condition"}},
	{name: "non-bool-condition-string", bol: "Str", only: []string{"if-condition", "else-if-condition", "for-condition"}},
	{name: "not-on-non-bool", bol: "!5"},
	{name: "not-on-string", bol: "!Str"},
	{name: "nil-pointer-field", num: "NilP.X"},
	{name: "index-out-of-range-literal", num: "FVS[99]"},
	{name: "index-out-of-range-variable", num: "FVS[ix]", pre: "ix = 99"},
	{name: "negative-index", num: "FVS[-1]"},
	{name: "div-by-zero", num: "1 / Zero0"},
	{name: "div-by-zero-literal", num: "7 / 0"},
	{name: "div-by-zero-unsigned", num: "UNum / UZero"},
	{name: "div-by-zero-float", num: "1.5 / FZero"},
	{name: "div-by-zero-float-by-unsigned", num: "1.5 / UZero"},
	{name: "div-by-zero-int-by-unsigned", num: "Num / UZero"},
	{name: "div-by-zero-unsigned-by-int", num: "UNum / Zero0"},
	{name: "div-by-zero-int-by-float", num: "Num / FZero"},
	{name: "missing-name", num: "nosuchname"},
	{name: "missing-key-variable", num: "FM[nokeyvar]"},
	{name: "ill-typed-comparison", bol: "1 > \"a\""},
	{name: "ill-typed-logic", bol: "1 && true"},
	{name: "ill-typed-arithmetic", num: "1 + \"a\""},
	{name: "bool-arithmetic", num: "true * 2"},
	{name: "panicking-function", num: "boom()", stmt: "boom()"},
	{name: "panicking-method", num: "Obj.Boom()", stmt: "Obj.Boom()"},
	{name: "panicking-three-level-method", num: "Obj.In.Boom3()", stmt: "Obj.In.Boom3()"},
	{name: "panicking-function-int-value", num: "boomi()", stmt: "boomi()"},
	{name: "panicking-function-struct-value", num: "booms()", stmt: "booms()"},
	{name: "panicking-function-error-value", num: "boome()", stmt: "boome()"},
	{name: "missing-method", num: "Obj.NoSuch()", stmt: "Obj.NoSuch(1)"},
	{name: "missing-function", num: "nosuchfn(1)", stmt: "nosuchfn(1)"},
	{name: "call-of-injected-data-as-function", num: "Num()", stmt: "Obj()"},
	{name: "three-level-call-on-a-local-number", num: "ln3.a.b(1)", stmt: "ln3.a.b(1)", pre: "ln3 = 5"},
	{name: "too-few-arguments", num: "two(1)", stmt: "two(1)"},
	{name: "too-many-arguments", num: "two(1, 2, 3)", stmt: "two(1, 2, 3)"},
	{name: "ill-typed-arguments", num: "two(\"a\", \"b\")", stmt: "Obj.Two(\"a\", true)"},
	{name: "field-of-non-struct", num: "Num.X"},
	{name: "missing-field", num: "Obj.NoField"},
	{name: "write-unassignable", stmt: "Val.F = 1"},
	{name: "write-injected-value", stmt: "Num = 3"},
	{name: "write-missing-field", stmt: "Obj.NoField = 1"},
	{name: "write-nil-map", stmt: "NilM[\"a\"] = 1"},
	{name: "write-index-out-of-range", stmt: "FVS[50] = 1"},
	{name: "write-wrong-element-type", stmt: "FM[\"a\"] = \"s\""},
	{name: "write-through-nil-pointer", stmt: "NilP.X = 1"},
	{name: "compound-missing-target", stmt: "nosuchtarget += 1"},
	// same kind, different type: reflect.Set panics inside the store
	{name: "write-named-type-scalar", stmt: "PLevel = 3"},
	{name: "write-struct-of-other-type", stmt: "PVal = Other"},
	{name: "write-string-into-number-pointer", stmt: "PLevel = \"x\""},
	// reading an unexported field through reflection works; only handing it out as the rule's result cannot
	{name: "unexported-field", num: "Obj.hidden", only: []string{"return-expression"}},
	{name: "break-outside-loop", stmt: "zq = 1 break", only: []string{"statement"}},
	{name: "continue-outside-loop", stmt: "zq = 1 continue", only: []string{"statement"}},
	{name: "range-missing", rng: "nosuchrange"},
	{name: "range-not-iterable", rng: "Num"},
	{name: "range-nil-pointer", rng: "NilP"},
	{name: "unbounded-for", loop: true},
}

type construct struct {
	name string
	// build the faulty statements for a fault; ok=false when the combination does not exist
	build func(f faultKind, id int) (string, bool)
}

func numOrBool(f faultKind) (expr string, isBool bool, ok bool) {
	if f.num != "" {
		return f.num, false, true
	}
	if f.bol != "" {
		return f.bol, true, true
	}
	return "", false, false
}

func cond(f faultKind) (string, bool) {
	e, isBool, ok := numOrBool(f)
	if !ok {
		return "", false
	}
	if isBool {
		return e, true
	}
	return e + " > 0", true
}

var constructs = []construct{
	{"if-condition", func(f faultKind, id int) (string, bool) {
		c, ok := cond(f)
		return fmt.Sprintf("%s if %s { zq = 1 } en(%d)", f.pre, c, id), ok
	}},
	{"else-if-condition", func(f faultKind, id int) (string, bool) {
		c, ok := cond(f)
		return fmt.Sprintf("%s if 1 > 2 { zq = 1 } else if %s { zq = 2 } else { zq = 3 } en(%d)", f.pre, c, id), ok
	}},
	{"for-init", func(f faultKind, id int) (string, bool) {
		return fmt.Sprintf("%s for fi = %s; fi < 2; fi += 1 { zq = 1 } en(%d)", f.pre, f.num, id), f.num != ""
	}},
	{"for-condition", func(f faultKind, id int) (string, bool) {
		c, ok := cond(f)
		return fmt.Sprintf("%s for fi = 0; %s; fi += 1 { zq = 1 break } en(%d)", f.pre, c, id), ok
	}},
	{"for-step", func(f faultKind, id int) (string, bool) {
		return fmt.Sprintf("%s for fi = 0; fi < 2; fi += %s { zq = 1 } en(%d)", f.pre, f.num, id), f.num != ""
	}},
	{"forrange-target", func(f faultKind, id int) (string, bool) {
		return fmt.Sprintf("forRange fk := %s { zq = 1 } en(%d)", f.rng, id), f.rng != ""
	}},
	{"return-expression", func(f faultKind, id int) (string, bool) {
		e, _, ok := numOrBool(f)
		return fmt.Sprintf("%s return %s", f.pre, e), ok
	}},
	{"assignment-rhs", func(f faultKind, id int) (string, bool) {
		e, _, ok := numOrBool(f)
		return fmt.Sprintf("%s zq = %s en(%d)", f.pre, e, id), ok
	}},
	{"compound-assignment", func(f faultKind, id int) (string, bool) {
		return fmt.Sprintf("%s zq = 1 zq += %s en(%d)", f.pre, f.num, id), f.num != ""
	}},
	{"call-argument", func(f faultKind, id int) (string, bool) {
		e, _, ok := numOrBool(f)
		return fmt.Sprintf("%s zq = two(%s, 1) en(%d)", f.pre, e, id), ok
	}},
	// the fault sits in the ARGUMENT of a call that is a statement of its own (not the right side of an
	// assignment, which has a handler of its own), outside and inside conc blocks, where an escaping panic
	// would be raised on a goroutine of its own
	{"method-call-argument", func(f faultKind, id int) (string, bool) {
		e, _, ok := numOrBool(f)
		return fmt.Sprintf("%s Obj.Two(%s, 1) en(%d)", f.pre, e, id), ok
	}},
	{"three-level-call-argument", func(f faultKind, id int) (string, bool) {
		e, _, ok := numOrBool(f)
		return fmt.Sprintf("%s Obj.In.Add(1, %s) en(%d)", f.pre, e, id), ok
	}},
	{"conc-function-call-argument", func(f faultKind, id int) (string, bool) {
		e, _, ok := numOrBool(f)
		return fmt.Sprintf("%s conc { two(%s, 1) zr = 2 } en(%d)", f.pre, e, id), ok
	}},
	{"conc-method-call-argument", func(f faultKind, id int) (string, bool) {
		e, _, ok := numOrBool(f)
		return fmt.Sprintf("%s conc { zr = 2 Obj.Two(1, %s) } en(%d)", f.pre, e, id), ok
	}},
	{"conc-three-level-call-argument", func(f faultKind, id int) (string, bool) {
		e, _, ok := numOrBool(f)
		return fmt.Sprintf("%s conc { Obj.In.Add(%s, 1) zr = 2 } en(%d)", f.pre, e, id), ok
	}},
	// several members of one block fail at once (more failures than the block has members of other categories)
	{"conc-two-failing-three-level-calls", func(f faultKind, id int) (string, bool) {
		e, _, ok := numOrBool(f)
		return fmt.Sprintf("%s conc { zr = 2 Obj.In.Add(%s, 1) Obj.In.Add(1, %s) } en(%d)", f.pre, e, e, id), ok
	}},
	{"conc-member", func(f faultKind, id int) (string, bool) {
		if f.stmt != "" {
			return fmt.Sprintf("conc { zq = 1 %s } en(%d)", f.stmt, id), true
		}
		e, _, ok := numOrBool(f)
		return fmt.Sprintf("%s conc { zq = %s zr = 2 } en(%d)", f.pre, e, id), ok
	}},
	{"nested-block", func(f faultKind, id int) (string, bool) {
		inner := f.stmt
		if inner == "" {
			e, _, ok := numOrBool(f)
			if !ok {
				return "", false
			}
			inner = "zq = " + e
		}
		return fmt.Sprintf("%s if 1 < 2 { for fj = 0; fj < 1; fj += 1 { if 2 > 1 { %s } } } en(%d)", f.pre, inner, id), true
	}},
	{"conc-inside-for", func(f faultKind, id int) (string, bool) {
		if f.stmt != "" {
			return fmt.Sprintf("for fj = 0; fj < 2; fj += 1 { conc { zq = 1 %s } } en(%d)", f.stmt, id), true
		}
		e, _, ok := numOrBool(f)
		return fmt.Sprintf("%s for fj = 0; fj < 2; fj += 1 { conc { zq = %s zr = 2 } } en(%d)", f.pre, e, id), ok
	}},
	{"forrange-body-expression", func(f faultKind, id int) (string, bool) {
		e, _, ok := numOrBool(f)
		return fmt.Sprintf("%s forRange fk := FVS { if fk == 2 { zq = %s } } en(%d)", f.pre, e, id), ok
	}},
	{"else-branch", func(f faultKind, id int) (string, bool) {
		inner := f.stmt
		if inner == "" {
			e, _, ok := numOrBool(f)
			if !ok {
				return "", false
			}
			inner = "zq = " + e
		}
		return fmt.Sprintf("%s if 1 > 2 { zq = 0 } else if 3 > 4 { zq = 1 } else { %s } en(%d)", f.pre, inner, id), true
	}},
	{"statement", func(f faultKind, id int) (string, bool) {
		return fmt.Sprintf("%s en(%d)", f.stmt, id), f.stmt != ""
	}},
	{"statement-in-for-body", func(f faultKind, id int) (string, bool) {
		return fmt.Sprintf("for fj = 0; fj < 2; fj += 1 { %s } en(%d)", f.stmt, id), f.stmt != ""
	}},
	{"statement-in-forrange-body", func(f faultKind, id int) (string, bool) {
		return fmt.Sprintf("forRange fk := FVS { %s } en(%d)", f.stmt, id), f.stmt != ""
	}},
	{"loop", func(f faultKind, id int) (string, bool) {
		return fmt.Sprintf("for fi = 0; fi < 1; fi += 0 { zq = 1 } en(%d)", id), f.loop
	}},
	{"loop-all-passes-continue", func(f faultKind, id int) (string, bool) {
		return fmt.Sprintf("for fi = 0; fi < 1; fi += 0 { zq = 1 continue } en(%d)", id), f.loop
	}},
	{"loop-continue-in-if", func(f faultKind, id int) (string, bool) {
		return fmt.Sprintf("for fi = 0; fi >= 0; fi += 1 { if fi >= 3 { continue } zq = fi } en(%d)", id), f.loop
	}},
	{"loop-forrange-inside", func(f faultKind, id int) (string, bool) {
		return fmt.Sprintf("for fi = 0; fi < 1; fi += 0 { forRange fk := FVS { if fk == 1 { continue } zq = fk } } en(%d)", id), f.loop
	}},
	{"loop-nested", func(f faultKind, id int) (string, bool) {
		return fmt.Sprintf("if 1 < 2 { for fi = 5; fi > 1; fi = 5 { if fi > 100 { break } } } en(%d)", id), f.loop
	}},
}

type faultCell struct {
	f faultKind
	c construct
}

var faultCells []faultCell

func init() {
	for _, f := range faultKinds {
		for _, c := range constructs {
			if len(f.only) > 0 {
				allowed := false
				for _, o := range f.only {
					if o == c.name {
						allowed = true
					}
				}
				if !allowed {
					continue
				}
			}
			if _, ok := c.build(f, 0); ok {
				faultCells = append(faultCells, faultCell{f, c})
			}
		}
	}
}

// NFaultCells is the size of the fault x construct catalog.
func NFaultCells() int { return len(faultCells) }

var c09Clauses = Clauses(ClError, ClPanic, ClFaultRan, ClOnce, ClPolicy, ClSeq, ClOrder, ClSelect, ClWindow, ClDag, ClBarrier, ClStop, ClGiven, ClLate)

var quickEntryPoints = []string{MExecute, MConcurrent, MMix, MNConcMSort, MDAG, MPoolEMMulti}

var allEntryMethods = append(append([]string{}, EngineMethods...), PoolOnlyMethods...)

// RunC09 runs one catalog cell (case index < NFaultCells) or a random ill-typed case.
func RunC09(k *fw.Case, randomBody func(r *rand.Rand, id int) (string, string, map[string]interface{})) {
	r := k.Rng
	procs := gmp[r.Intn(len(gmp))]
	prev := runtime.GOMAXPROCS(procs)
	defer runtime.GOMAXPROCS(prev)
	var custom, label string
	extraApis := map[string]interface{}{}
	const badID = 1
	if k.Index < len(faultCells) {
		cell := faultCells[k.Index]
		custom, _ = cell.c.build(cell.f, badID)
		label = cell.f.name + "@" + cell.c.name
		k.Count("catalog_cells", 1)
	} else {
		if k.Index%8 == 3 {
			ConcStress(k)
			return
		}
		var extra map[string]interface{}
		custom, label, extra = randomBody(r, badID)
		for n, v := range extra {
			extraApis[n] = v
		}
		k.Count("random_faults", 1)
	}
	// rule set: the faulty rule plus three healthy ones at varied priorities
	rs := &RuleSet{}
	sal := []int64{int64(r.Intn(5) - 2), 3, 0, -3}
	if k.Index%7 == 5 {
		sal[1] = int64(r.Intn(7) - 3) // two-rule set: the healthy rule above, below or level with the faulty one
	}
	// one case in three: the faulty rule sets the stop tag before it faults - the fault must surface all the same
	setStop := k.Index%3 == 1
	if setStop {
		k.Count("faulty_rule_sets_stop_tag_first", 1)
	}
	rs.Rules = append(rs.Rules, &Rule{ID: badID, Name: "bad", Sal: sal[0], HasSal: true, Fail: FailCustom, Custom: custom, SetStop: setStop})
	// one case in seven: the smallest set in which "the other rules" exist at all - the faulty rule and one more
	nHealthy := 3
	if k.Index%7 == 5 {
		nHealthy = 1
		k.Count("two_rule_sets", 1)
	}
	for i := 0; i < nHealthy; i++ {
		h := &Rule{ID: 10 + i, Name: fmt.Sprintf("h%d", i), Sal: sal[i+1], HasSal: true}
		if i == 1 {
			h.Ret, h.RetVal = RetValue, 4711
		}
		rs.Rules = append(rs.Rules, h)
	}
	rs.Text = rs.Print(r)
	obs := NewObs()
	apis := faultApis()
	for n, v := range extraApis {
		apis[n] = v
	}
	eng, err := NewEngineTarget(obs, rs.Text)
	if err != nil {
		k.Inconclusive("fault text does not compile (" + label + "): " + trunc(err.Error(), 200) + " :: " + trunc(custom, 200))
		return
	}
	for n, v := range apis {
		eng.DC.Add(n, v)
	}
	em := 1 + r.Intn(4)
	pa := obs.Apis()
	for n, v := range apis {
		pa[n] = v
	}
	pa["three"] = Three
	var pool *Target
	perr := CompileLocked(func() error {
		p, e := newPool(1, 2, em, rs.Text, pa)
		if e == nil {
			pool = &Target{Obs: obs, Pool: p}
		}
		return e
	})
	if perr != nil {
		k.Inconclusive("fault text does not compile in a pool (" + label + ")")
		return
	}
	// entry points: quick = representatives (+ all of them for three representative cells), thorough = all 45
	type ep struct {
		m    string
		pool bool
	}
	var eps []ep
	all := k.Tier == "thorough" || k.Index%13 == 0 || k.Index >= len(faultCells)
	if all {
		for _, m := range EngineMethods {
			eps = append(eps, ep{m, false}, ep{m, true})
		}
		for _, m := range PoolOnlyMethods {
			eps = append(eps, ep{m, true})
		}
		if k.Tier != "thorough" && k.Index >= len(faultCells) {
			// random cases: a random third of the entry points
			r.Shuffle(len(eps), func(i, j int) { eps[i], eps[j] = eps[j], eps[i] })
			eps = eps[:15]
		}
	} else {
		for _, m := range quickEntryPoints {
			eps = append(eps, ep{m, m == MPoolEMMulti || r.Intn(2) == 0})
		}
	}
	cfg := &Config{UnknownNames: false}
	for _, e := range eps {
		t := eng
		if e.pool {
			t = pool
		}
		c, ok := GenCall(r, e.m, rs, cfg)
		if !ok {
			continue
		}
		c.Pool = e.pool
		if e.pool {
			c.EM = em
		}
		if c.IsSelected() && (c.Method != MSelNSortMConc && c.Method != MSelNConcMSort && c.Method != MSelNConcMConc) {
			// make sure the faulty rule is selected
			has := false
			for _, n := range c.Names {
				if n == "bad" {
					has = true
				}
			}
			if !has {
				c.Names = append(c.Names, "bad")
			}
		}
		if c.Method == MDAG && nHealthy == 1 {
			c.DAG = [][][]string{{{"bad"}, {"h0"}}, {{"h0", "bad"}}, {{"h0"}, {"bad"}}}[r.Intn(3)]
		} else if c.Method == MDAG {
			switch r.Intn(4) {
			case 0:
				c.DAG = [][]string{{"h0"}, {"bad", "h1"}, {"h2"}}
			case 1:
				c.DAG = [][]string{{"bad"}, {"h0", "h1", "h2"}}
			case 2:
				c.DAG = [][]string{{"h0", "h1"}, {"h2", "bad"}} // the fault is in the LAST layer
			default:
				c.DAG = [][]string{{"bad", "h0", "ghost"}} // a single layer
			}
		}
		lg := NewLog()
		out := t.Invoke(c, lg)
		k.Eval(1)
		k.Count("calls_"+c.Method, 1)
		k.Count("events", int64(len(out.Events)))
		fs := Check(rs, c, out, false)
		reportFault(k, label, rs, c, out, fs, procs)
		k.Distinct(label, c.Method, c.Pool)
		// a following healthy call on the same engine / pool must be unaffected
		hc := Call{Method: MSelCtl, B: true, Names: healthyNames(nHealthy), Pool: e.pool}
		lg2 := NewLog()
		out2 := t.Invoke(hc, lg2)
		k.Eval(1)
		fs2 := Check(rs, hc, out2, false)
		for i := range fs2 {
			fs2[i].Msg = "healthy call after the faulty one: " + fs2[i].Msg
		}
		reportFault(k, label+"/followup", rs, hc, out2, fs2, procs)
	}
	if k.Index%50 == 0 {
		k.Sample(map[string]interface{}{"fault": label, "faulty_statements": custom, "entry_points": len(eps)})
	}
}

func healthyNames(n int) []string {
	if n == 1 {
		return []string{"h0"}
	}
	return []string{"h2", "h0", "h1"}
}

func reportFault(k *fw.Case, label string, rs *RuleSet, c Call, out Outcome, fs []Finding, procs int) {
	for _, f := range fs {
		if !c09Clauses[f.Clause] {
			continue
		}
		m := c.Method
		if c.Pool {
			m = "pool." + m
		}
		errS := "<nil>"
		if out.Err != nil {
			errS = trunc(out.Err.Error(), 300)
		}
		k.Violate(label+"/"+m+"/"+f.Clause, fmt.Sprintf("fault %s through %s: %s", label, m, f.Msg), map[string]interface{}{
			"rule_text": rs.Text, "call": c, "gomaxprocs": procs, "events": evString(out.Events), "err": errS, "result": fmt.Sprint(out.Result)})
	}
}

// reEnter's method comes back into the data context of the engine target.
type reEnter struct {
	dc interface {
		Add(string, interface{})
		Get(string) (reflect.Value, error)
		Del(...string)
	}
}

func (r *reEnter) Put(v int64) int64 {
	name := fmt.Sprintf("ReKey%d", v)
	r.dc.Add(name, v)
	r.dc.Get(name)
	r.dc.Del(name)
	return v
}

type reHolder struct{ In *reEnter }

// growT is ranged over while its methods make it longer.
type growT struct {
	mu    sync.Mutex
	Items []int64
	M     map[string]int64
	n     int
}

func (g *growT) Reset() {
	g.mu.Lock()
	g.Items = []int64{1, 2, 3}
	g.M = map[string]int64{"a": 1, "b": 2}
	g.mu.Unlock()
}

func (g *growT) More() {
	g.mu.Lock()
	g.Items = append(g.Items, 9)
	g.mu.Unlock()
}

func (g *growT) MoreKeys() {
	g.mu.Lock()
	g.n++
	g.M[fmt.Sprintf("k%d", g.n)] = 1
	g.mu.Unlock()
}

// ConcStress (C09, random part): a compilable rule whose conc block reads and writes many
// locals at once, executed a few hundred times in several models. Nothing in it faults, so the
// call must return nil - and, above all, it must return: a crash of the process (e.g. the Go
// runtime's unrecoverable "concurrent map read and map write") is attributed to this case by
// the coordinator.
func ConcStress(k *fw.Case) {
	r := k.Rng
	var b strings.Builder
	b.WriteString("rule \"stress\" salience 5 begin\n  y = 20\n  z = 22\n  conc {\n")
	n := 16 + r.Intn(16)
	for i := 0; i < n; i++ {
		switch i % 3 {
		case 0:
			fmt.Fprintf(&b, "    v%d = y + z\n", i)
		case 1:
			fmt.Fprintf(&b, "    seen(y, z)\n")
		default:
			fmt.Fprintf(&b, "    w%d = seen(z, y)\n", i)
		}
	}
	b.WriteString("  }\n  return v0\nend\nrule \"other\" salience 1 begin conc { a1 = 1 a2 = a1x() } return a1 end\n")
	// stores through a LOCAL that holds an injected object, one and two levels deep: plain healthy statements
	b.WriteString("rule \"alias\" salience -2 begin\n  la = AObj\n  la.F = 3\n  la.In.X = 7\n  lv = la.In.X + la.F\n  return lv\nend\n")
	// injected code that comes back into the data context it was called from (a function, a method, a
	// three-level method that add, read and remove a name): the call returns all the same
	b.WriteString("rule \"reenter\" salience -1 begin\n  ReFn(1)\n  ReObj.Put(2)\n  ReHold.In.Put(3)\n  rex = ReHold.In.Put(4)\n  return 1\nend\n")
	// loops over containers that GROW while they are ranged over (through injected methods that terminate):
	// forRange visits what was there when it started - in any case the call has to come back
	b.WriteString("rule \"grower\" salience 0 begin\n  Grow.Reset()\n  gcnt = 0\n  forRange gi := Grow.Items {\n    Grow.More()\n    gcnt += 1\n  }\n  forRange gk := Grow.M {\n    Grow.MoreKeys()\n  }\n  forRange gj := GrowS {\n    gcnt += 1\n  }\n  return gcnt\nend\n")
	var calls int64
	grow := &growT{Items: []int64{1, 2, 3}, M: map[string]int64{"a": 1, "b": 2}}
	apis := map[string]interface{}{
		"Grow":  grow,
		"AObj":  &FaultObj{F: 1},
		"GrowS": []int64{4, 5},
		"seen":  func(a, c int64) int64 { atomic.AddInt64(&calls, 1); return a + c },
		"a1x":   func() int64 { return 2 },
	}
	obs := NewObs()
	eng, err := NewEngineTarget(obs, b.String())
	if err != nil {
		k.Inconclusive("conc stress text does not compile: " + trunc(err.Error(), 200))
		return
	}
	for n, v := range apis {
		eng.DC.Add(n, v)
	}
	reent := &reEnter{dc: eng.DC}
	for n, v := range map[string]interface{}{"ReFn": reent.Put, "ReObj": reent, "ReHold": &reHolder{In: reent}} {
		eng.DC.Add(n, v)
		apis[n] = v
	}
	pa := obs.Apis()
	for n, v := range apis {
		pa[n] = v
	}
	var pool *Target
	if CompileLocked(func() error {
		p, e := newPool(1, 2, 1, b.String(), pa)
		if e == nil {
			pool = &Target{Obs: obs, Pool: p}
		}
		return e
	}) != nil {
		k.Inconclusive("conc stress text does not compile in a pool")
		return
	}
	methods := []string{MExecute, MConcurrent, MMix, MDAG}
	for i := 0; i < 240; i++ {
		t := eng
		if i%3 == 0 {
			t = pool
		}
		c := Call{Method: methods[i%len(methods)], B: true, Pool: t.Pool != nil, DAG: [][]string{{"stress", "other"}, {"stress"}}}
		out := t.Invoke(c, NewLog())
		k.Eval(1)
		if out.Panic != nil {
			k.Violate("conc-stress/panic", fmt.Sprintf("a healthy rule with a wide conc block panicked into the caller: %v", out.Panic), map[string]interface{}{"rule_text": b.String()})
			return
		}
		if out.Err != nil {
			k.Violate("conc-stress/error", "a healthy rule with a wide conc block failed: "+trunc(out.Err.Error(), 300), map[string]interface{}{"rule_text": b.String()})
			return
		}
		if v, ok := out.Result["stress"]; !ok || v != interface{}(int64(42)) {
			k.Violate("conc-stress/value", fmt.Sprintf("conc block computed %v, expected 42", v), map[string]interface{}{"rule_text": b.String()})
			return
		}
	}
	k.Count("conc_stress_executions", 240)
	k.Distinct("conc-stress", n)
}
