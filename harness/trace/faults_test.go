package trace

import "testing"

func TestCells(t *testing.T) { t.Logf("cells=%d", NFaultCells()) }
