package trace

import (
	"fmt"
	"math/rand"
	"runtime"
	"sort"
	"strings"
	"time"

	"github.com/bilibili/gengine/engine"
	"verifharness/fw"
)

// Config selects what one E2 property family drives and which clauses it decides.
type Config struct {
	Methods      []string
	Clauses      map[string]bool
	Gen          GenOpts
	Calls        int     // calls per rule set
	PoolProb     float64 // probability that the rule set is (also) driven through a pool
	Holds        bool
	UnknownNames bool // selected variants get unknown / empty name lists
	BadNM        bool // selected N-M variants get wrong counts / unknown names
	StopSetters  int  // max number of stop-tag setters
	DupDAG       bool
	SlowLayer    bool // cases 1-3 of a run make one DAG call each whose first layer takes 3.5 s
	EmptyDAG     bool // sometimes all rules are removed at the end and the DAG model is called once more
	MinRulesNM   bool
	BigSets      int  // one in BigSets cases uses 24-40 rules (many goroutines in the concurrent stages)
	BadSplit     bool // un-selected N-M calls get invalid splits too (only the result clause is decided for them)
	DupNames     bool // selected calls sometimes get a duplicated name
}

func clauses(cs ...string) map[string]bool {
	m := map[string]bool{}
	for _, c := range cs {
		m[c] = true
	}
	return m
}

// Clauses is exported for the family registrations.
func Clauses(cs ...string) map[string]bool { return clauses(cs...) }

func sortedSal(rules []*Rule) []int64 {
	s := make([]int64, len(rules))
	for i, r := range rules {
		s[i] = r.Sal
	}
	sort.Slice(s, func(i, j int) bool { return s[i] > s[j] })
	return s
}

// GenCall builds arguments for method over rs. ok=false when the rule set cannot carry the method.
func GenCall(r *rand.Rand, method string, rs *RuleSet, cfg *Config) (c Call, ok bool) {
	c.Method = method
	c.B = r.Intn(2) == 0
	n := len(rs.Rules)
	switch method {
	case MNSortMConc, MNConcMSort, MNConcMConc:
		if n < 2 {
			return c, false
		}
		tot := 2 + r.Intn(n-1) // 2..n
		if r.Intn(3) == 0 {
			tot = n
		}
		c.N = 1 + r.Intn(tot-1)
		c.M = tot - c.N
		if cfg.BadSplit && r.Intn(5) == 0 {
			switch r.Intn(4) {
			case 0:
				c.N = 0
			case 1:
				c.M = -1
			case 2:
				c.N, c.M = n, 1+r.Intn(3)
			default:
				c.N, c.M = 1+r.Intn(n), n
			}
		}
	case MSelNSortMConc, MSelNConcMSort, MSelNConcMConc:
		if n < 2 {
			return c, false
		}
		names := rs.Names()
		r.Shuffle(len(names), func(i, j int) { names[i], names[j] = names[j], names[i] })
		tot := 2 + r.Intn(n-1)
		c.N = 1 + r.Intn(tot-1)
		c.M = tot - c.N
		c.Names = names[:tot]
		if cfg.DupNames && tot >= 2 && r.Intn(6) == 0 {
			// right count, all names known, but one of them twice (as many names as rules when tot == n)
			c.Names = append([]string{}, c.Names...)
			c.Names[r.Intn(tot)] = c.Names[r.Intn(tot)]
			dup := map[string]bool{}
			for _, nm := range c.Names {
				if dup[nm] {
					c.DupNames = true
				}
				dup[nm] = true
			}
		} else if cfg.BadNM {
			switch r.Intn(6) {
			case 0: // unknown name at a random position
				c.Names = append([]string{}, c.Names...)
				c.Names[r.Intn(len(c.Names))] = "no_such_rule"
			case 1: // one name too many
				if tot < n {
					c.Names = names[:tot+1]
				} else {
					c.Names = names[:tot-1]
				}
			case 2: // one name short
				c.Names = names[:tot-1]
			}
		}
	case MDAG:
		c.DAG = GenDAG(r, rs)
		if !cfg.DupDAG {
			// remove repeated occurrences of a rule
			seen := map[string]bool{}
			for i := range c.DAG {
				var l []string
				for _, nme := range c.DAG[i] {
					if !seen[nme] {
						l = append(l, nme)
						seen[nme] = true
					}
				}
				if l == nil {
					l = []string{}
				}
				c.DAG[i] = l
			}
		}
	default:
		if c.IsSelected() {
			c.Names = GenNames(r, rs, cfg.UnknownNames)
			if cfg.DupNames && len(c.Names) >= 1 && r.Intn(6) == 0 {
				// a duplicated name (how often the duplicate runs is not defined; that no
				// unselected rule runs is)
				pos := r.Intn(len(c.Names) + 1)
				dup := c.Names[r.Intn(len(c.Names))]
				c.Names = append(c.Names[:pos], append([]string{dup}, c.Names[pos:]...)...)
				c.DupNames = true
			}
		}
	}
	return c, true
}

// installHolds chooses a laggard for the call and says which starts must not happen before it ends.
func installHolds(r *rand.Rand, lg *Log, rs *RuleSet, c Call, em int) int {
	delay := time.Duration(300+r.Intn(2200)) * time.Microsecond
	method := c.Method
	if method == MPoolEM || method == MPoolEMMulti {
		method = map[int]string{engine.SortModel: MExecute, engine.ConcurrentModel: MConcurrent, engine.MixModel: MMix, engine.InverseMixModel: MInverse}[em]
	}
	if method == MPoolEMSel {
		method = map[int]string{engine.SortModel: MSel, engine.ConcurrentModel: MSelConcurrent, engine.MixModel: MSelMix, engine.InverseMixModel: MSelInverse}[em]
	}
	S := rs.Rules
	if c.IsSelected() {
		S, _ = selection(rs, c.Names)
	}
	if len(S) == 0 {
		return 0
	}
	switch method {
	case MConcurrent, MSelConcurrent:
		lg.SetHold(S[r.Intn(len(S))].ID, &Hold{Delay: delay})
		return 1
	case MMix, MMixStop, MSelMix:
		hi := sortedSal(S)[0]
		var heads []*Rule
		forbid := map[int]bool{}
		for _, x := range S {
			if x.Sal == hi {
				heads = append(heads, x)
			}
		}
		h := heads[r.Intn(len(heads))]
		for _, x := range S {
			if x.ID != h.ID {
				forbid[x.ID] = true
			}
		}
		lg.SetHold(h.ID, &Hold{Forbid: forbid, Delay: delay})
		return 1
	case MInverse, MSelInverse:
		ss := sortedSal(S)
		lo := ss[len(ss)-1]
		var cands []*Rule
		forbid := map[int]bool{}
		for _, x := range S {
			if x.Sal > lo {
				cands = append(cands, x)
			} else {
				forbid[x.ID] = true
			}
		}
		if len(cands) == 0 {
			cands = S
			forbid = nil
		}
		lg.SetHold(cands[r.Intn(len(cands))].ID, &Hold{Forbid: forbid, Delay: delay})
		return 1
	case MNSortMConc, MNConcMSort, MNConcMConc, MSelNSortMConc, MSelNConcMSort, MSelNConcMConc:
		if c.N < 1 || c.N >= len(S) {
			return 0
		}
		ss := sortedSal(S)
		var cands []*Rule
		forbid := map[int]bool{}
		for _, x := range S {
			if x.Sal > ss[c.N] {
				cands = append(cands, x)
			}
			if x.Sal < ss[c.N-1] {
				forbid[x.ID] = true
			}
		}
		if len(cands) == 0 {
			for _, x := range S {
				if x.Sal >= ss[c.N-1] {
					cands = append(cands, x)
				}
			}
		}
		if len(forbid) == 0 {
			forbid = nil
		}
		lg.SetHold(cands[r.Intn(len(cands))].ID, &Hold{Forbid: forbid, Delay: delay})
		return 1
	case MDAG:
		nh := 0
		seen := map[int]bool{}
		for i := 0; i+1 < len(c.DAG) && nh < 2; i++ {
			var here []*Rule
			for _, nme := range c.DAG[i] {
				if x := rs.ByName(nme); x != nil {
					here = append(here, x)
					seen[x.ID] = true
				}
			}
			if len(here) == 0 {
				continue
			}
			forbid := map[int]bool{}
			for _, l := range c.DAG[i+1:] {
				for _, nme := range l {
					if x := rs.ByName(nme); x != nil && !seen[x.ID] {
						forbid[x.ID] = true
					}
				}
			}
			if len(forbid) == 0 {
				continue
			}
			if r.Intn(2) == 0 {
				lg.SetHold(here[r.Intn(len(here))].ID, &Hold{Forbid: forbid, Delay: delay})
				nh++
			}
		}
		return nh
	}
	return 0
}

func evString(evs []Ev) string {
	var b strings.Builder
	for i, e := range evs {
		if i > 0 {
			b.WriteByte(' ')
		}
		b.WriteString(e.String())
	}
	return b.String()
}

func shape(rs *RuleSet) string {
	var b strings.Builder
	// salience rank pattern + fail/ret flags in priority order
	rules := append([]*Rule{}, rs.Rules...)
	sort.SliceStable(rules, func(i, j int) bool { return rules[i].Sal > rules[j].Sal })
	for i, r := range rules {
		if i > 0 {
			if r.Sal == rules[i-1].Sal {
				b.WriteByte('=')
			} else {
				b.WriteByte('>')
			}
		}
		fmt.Fprintf(&b, "%d%d", r.Fail, r.Ret)
		if r.SetStop {
			b.WriteByte('S')
		}
	}
	return b.String()
}

var gmp = []int{1, 2, 4, 16}

// RunCase is the body of every E2 family: one rule set, several calls, every call checked.
func RunCase(k *fw.Case, cfg *Config) {
	r := k.Rng
	procs := gmp[r.Intn(len(gmp))]
	prev := runtime.GOMAXPROCS(procs)
	defer runtime.GOMAXPROCS(prev)

	g := cfg.Gen
	g.StopSetters = 0
	if cfg.StopSetters > 0 {
		g.StopSetters = r.Intn(cfg.StopSetters + 1)
	}
	if cfg.BigSets > 0 && r.Intn(cfg.BigSets) == 0 {
		g.MinRules, g.MaxRules = 24, 40
		k.Count("big_rule_sets", 1)
		if r.Intn(4) == 0 {
			// more rules than any worker pool a stage might be given
			g.MinRules, g.MaxRules = 66, 90
			k.Count("huge_rule_sets", 1)
		}
	}
	rs := Gen(r, g)
	obs := NewObs()
	// a third of the rule sets are installed by a full build followed by incremental builds
	var groups []string
	if len(rs.Rules) >= 2 && r.Intn(3) == 0 {
		groups = rs.Groups(r, 2+r.Intn(2))
		k.Count("rule_sets_installed_incrementally", 1)
	}
	var eng *Target
	var err error
	if groups != nil {
		eng, err = NewEngineTargetSplit(obs, groups)
	} else {
		eng, err = NewEngineTarget(obs, rs.Text)
	}
	if err != nil {
		k.Inconclusive("generated rule set does not compile (compiling is C10's subject): " + trunc(err.Error(), 300))
		return
	}
	var pool *Target
	em := 1 + r.Intn(4)
	if r.Float64() < cfg.PoolProb {
		if groups != nil {
			pool, err = NewPoolTargetSplit(obs, groups, 1, 2, em)
		} else {
			pool, err = NewPoolTarget(obs, rs.Text, 1, 2, em)
		}
		if err != nil {
			k.Inconclusive("generated rule set does not compile in a pool (C10's subject): " + trunc(err.Error(), 300))
			return
		}
	}
	type done struct {
		c    Call
		out  Outcome
		snap map[string]interface{} // copy of the result map at the moment the call returned
	}
	var calls []done
	sh := shape(rs)
	replaceAt := -1
	if cfg.Calls >= 4 && len(rs.Rules) >= 2 && r.Intn(3) == 0 {
		replaceAt = cfg.Calls / 2
	}
	// the last selected call made on the plain engine, per method: repeated unchanged after the replacement
	lastSel := map[string]Call{}
	var lastSelOrder []string
	runCall := func(i int, t *Target, c Call) {
		lg := NewLog()
		nh := 0
		if cfg.Holds {
			nh = installHolds(r, lg, rs, c, em)
		}
		out := t.Invoke(c, lg)
		k.Eval(1)
		k.Count("events", int64(len(out.Events)))
		k.Count("holds_installed", int64(nh))
		k.Count("holds_entered", int64(out.HoldsHit))
		k.Count("calls_"+c.Method, 1)
		if c.Pool {
			k.Count("calls_via_pool", 1)
		}
		fs := Check(rs, c, out, false)
		report(k, cfg, rs, c, out, fs, procs)
		snap := make(map[string]interface{}, len(out.Result))
		for rk, rv := range out.Result {
			snap[rk] = rv
		}
		calls = append(calls, done{c, out, snap})
		if len(out.Events) > 0 {
			k.Distinct(c.Method, c.Pool, c.B, c.N, c.M, len(c.Names), len(c.DAG), sh, evString(out.Events))
		}
		if i == 0 {
			k.Sample(map[string]interface{}{"rules": rs.Rules, "call": c, "gomaxprocs": procs, "events": evString(out.Events), "err_nil": out.Err == nil, "result_keys": resKeys(out.Result)})
		}
	}
	for i := 0; i < cfg.Calls; i++ {
		if i == replaceAt {
			// half-way: one rule is replaced by an incremental update (new body = new id, possibly a new
			// salience and fault status); the calls that follow must run the new version - a selection,
			// an order or a rule body cached from the earlier calls would be stale now
			old := rs.Rules[r.Intn(len(rs.Rules))]
			if len(lastSelOrder) > 0 && r.Intn(4) > 0 {
				// prefer a rule that an earlier selected call named
				pc := lastSel[lastSelOrder[r.Intn(len(lastSelOrder))]]
				for _, n := range pc.Names {
					if ru := rs.ByName(n); ru != nil {
						old = ru
						break
					}
				}
			}
			// the update text carries 1-3 rules: the replacement(s) and, sometimes, a rule that is new
			olds := []*Rule{old}
			for extra := r.Intn(3); extra > 0; extra-- {
				c := rs.Rules[r.Intn(len(rs.Rules))]
				dup := false
				for _, o := range olds {
					dup = dup || o == c
				}
				if !dup {
					olds = append(olds, c)
				}
			}
			var news []*Rule
			txt := ""
			for _, o := range olds {
				nr := *o
				nr.ID = o.ID + 1000
				nr.Fail, nr.FailInReturn, nr.Custom = FailNone, false, ""
				if r.Intn(4) == 0 {
					nr.Fail = FailDivZero
				}
				if nr.Ret != RetNone {
					nr.RetVal = o.RetVal + 7
				}
				if r.Intn(2) == 0 {
					nr.HasSal, nr.Sal = true, int64(r.Intn(7)-3)
				}
				news = append(news, &nr)
			}
			var added *Rule
			if r.Intn(3) == 0 {
				added = &Rule{ID: 3000 + len(rs.Rules), Name: fmt.Sprintf("added-%d", len(rs.Rules)), HasSal: true, Sal: int64(r.Intn(7) - 3)}
			}
			parts := append([]*Rule{}, news...)
			if added != nil {
				parts = append(parts, added)
			}
			r.Shuffle(len(parts), func(i, j int) { parts[i], parts[j] = parts[j], parts[i] })
			for _, pr := range parts {
				txt += pr.Text(r)
			}
			var uerr error
			CompileLocked(func() error {
				uerr = eng.RB.BuildRuleWithIncremental(txt)
				if uerr == nil && pool != nil {
					uerr = pool.Pool.UpdatePooledRulesIncremental(txt)
				}
				return nil
			})
			if uerr != nil {
				k.Inconclusive("incremental replacement did not compile: " + trunc(uerr.Error(), 200))
				return
			}
			for ri := range rs.Rules {
				for oi, o := range olds {
					if rs.Rules[ri] == o {
						rs.Rules[ri] = news[oi]
					}
				}
			}
			if added != nil {
				rs.Rules = append(rs.Rules, added)
			}
			k.Count("rules_replaced_mid_case", int64(len(olds)))
			rs.Text += "\n// replaced incrementally:\n" + txt
			sh = shape(rs)
			k.Count("rule_sets_with_a_mid_case_replacement", 1)
			// the same selected calls (same method, same name list, same engine) once more: whatever the
			// engine kept from the first time is stale now
			for _, m := range lastSelOrder {
				k.Count("selected_calls_repeated_after_replacement", 1)
				runCall(-1, eng, lastSel[m])
			}
		}
		method := cfg.Methods[(k.Index*cfg.Calls+i+r.Intn(2))%len(cfg.Methods)]
		t := eng
		poolOnly := method == MPoolEM || method == MPoolEMMulti || method == MPoolEMSel
		if poolOnly && pool == nil {
			continue
		}
		if pool != nil && (poolOnly || r.Intn(2) == 0) {
			t = pool
		}
		c, ok := GenCall(r, method, rs, cfg)
		if !ok {
			k.Count("calls_skipped_rule_set_too_small", 1)
			continue
		}
		c.Pool = t.Pool != nil
		if c.Pool && poolOnly {
			if r.Intn(3) == 0 {
				em = 1 + r.Intn(4)
				if e := t.Pool.SetExecModel(em); e != nil {
					k.Inconclusive("SetExecModel rejected a valid model (C16's subject)")
				}
			}
			c.EM = em
		}
		if !c.Pool && (c.IsSelected() || c.Method == MDAG) {
			if _, seen := lastSel[c.Method]; !seen {
				lastSelOrder = append(lastSelOrder, c.Method)
			}
			lastSel[c.Method] = c
		}
		runCall(i, t, c)
	}
	if cfg.SlowLayer && k.Index >= 1 && k.Index <= 3 {
		// three times per run: a layer that takes SECONDS (its laggard holds 3.5 s unless a rule of the next layer
		// starts): the barrier has no patience limit
		var a, b *Rule
		for _, ru := range rs.Rules {
			if ru.Fails() {
				continue
			}
			if a == nil {
				a = ru
			} else if b == nil {
				b = ru
			}
		}
		if a != nil && b != nil {
			c := Call{Method: MDAG, DAG: [][]string{{a.Name}, {b.Name}}}
			lg := NewLog()
			lg.SetHold(a.ID, &Hold{Forbid: map[int]bool{b.ID: true}, Delay: 3500 * time.Millisecond})
			out := eng.Invoke(c, lg)
			k.Eval(1)
			k.Count("dag_calls_with_a_layer_of_seconds", 1)
			report(k, cfg, rs, c, out, Check(rs, c, out, false), procs)
		}
	}
	if cfg.EmptyDAG && r.Intn(4) == 0 {
		// every rule is removed: for the DAG model all names are unknown names now - they are skipped, nothing
		// runs, nothing fails
		old := rs.Names()
		eng.RB.RemoveRules(old)
		if pool != nil {
			pool.Pool.RemoveRules(old)
		}
		empty := &RuleSet{}
		for _, t := range []*Target{eng, pool} {
			if t == nil {
				continue
			}
			c := Call{Method: MDAG, DAG: GenDAG(r, rs), Pool: t.Pool != nil}
			lg := NewLog()
			out := t.Invoke(c, lg)
			k.Eval(1)
			k.Count("dag_calls_on_an_emptied_rule_set", 1)
			report(k, cfg, empty, c, out, Check(empty, c, out, false), procs)
		}
	}
	// no late events: the part of each log that belongs to a returned call must not have grown
	time.Sleep(200 * time.Microsecond)
	if cfg.Holds {
		time.Sleep(2500 * time.Microsecond) // longer than the longest hold: stragglers of a broken barrier have ended by now
	}
	for _, d := range calls {
		// the result map handed out by a call is final when the call returns
		changed := len(d.out.Result) != len(d.snap)
		for rk, rv := range d.snap {
			if cv, ok := d.out.Result[rk]; !ok || cv != rv {
				changed = true
			}
		}
		if changed {
			fs := []Finding{{ClResult, fmt.Sprintf("the result map changed after the call had returned: it was %v, it is now %v", d.snap, d.out.Result)}}
			report(k, cfg, rs, d.c, d.out, fs, procs)
		}
	}
	for _, d := range calls {
		if n := d.out.lg.Len(); n != len(d.out.Events) {
			fs := []Finding{{ClLate, fmt.Sprintf("%d event(s) were logged after the call had returned: %s", n-len(d.out.Events), evString(d.out.lg.Snapshot()[len(d.out.Events):]))}}
			report(k, cfg, rs, d.c, d.out, fs, procs)
		}
	}
}

func resKeys(m map[string]interface{}) []string {
	var ks []string
	for k := range m {
		ks = append(ks, k)
	}
	sort.Strings(ks)
	return ks
}

func report(k *fw.Case, cfg *Config, rs *RuleSet, c Call, out Outcome, fs []Finding, procs int) {
	for _, f := range fs {
		if !cfg.Clauses[f.Clause] {
			k.Count("findings_other_property_"+f.Clause, 1)
			continue
		}
		m := c.Method
		if c.Pool {
			m = "pool." + m
		}
		errS := "<nil>"
		if out.Err != nil {
			errS = trunc(out.Err.Error(), 500)
		}
		k.Violate(m+"/"+f.Clause, m+": "+f.Msg, map[string]interface{}{
			"rule_text": rs.Text, "rules": rs.Rules, "call": c, "gomaxprocs": procs,
			"events": evString(out.Events), "err": errS, "result": fmt.Sprintf("%v", out.Result), "finding": f,
		})
	}
}

// TagEquivalence (C14): "if the tag is never set, behaviour is identical to the corresponding
// variant without a tag" taken literally for the sequential variants, whose order is
// deterministic for a given builder and name list: the tagged call (no rule sets the tag) and
// the tag-less call must start the same rules in the same order, agree on error nil-ness and
// on the result keys. Large sets with few distinct saliences make tie handling visible.
func TagEquivalence(k *fw.Case) {
	r := k.Rng
	rs := Gen(r, GenOpts{MinRules: 13, MaxRules: 22, FailProb: 0.1, RetProb: 0.3})
	for _, ru := range rs.Rules {
		ru.HasSal, ru.Sal = true, int64(r.Intn(3))
	}
	rs.Text = rs.Print(r)
	obs := NewObs()
	eng, err := NewEngineTarget(obs, rs.Text)
	if err != nil {
		k.Inconclusive("rule set does not compile: " + trunc(err.Error(), 200))
		return
	}
	pool, err := NewPoolTarget(obs, rs.Text, 1, 2, 1)
	if err != nil {
		k.Inconclusive("rule set does not compile in a pool")
		return
	}
	pairs := [][2]string{{MExecute, MExecuteStop}, {MSelCtl, MSelCtlStop}, {MSelCtlGiven, MSelCtlStopGiven}}
	for _, pr := range pairs {
		for _, t := range []*Target{eng, pool} {
			b := r.Intn(2) == 0
			names := rs.Names()
			r.Shuffle(len(names), func(i, j int) { names[i], names[j] = names[j], names[i] })
			if r.Intn(2) == 0 {
				names = names[:13+r.Intn(len(names)-12)]
			}
			if r.Intn(3) == 0 {
				// repeated names: whatever the variant without a tag does with them, its tagged twin does the same
				for j := 1 + r.Intn(3); j > 0; j-- {
					pos := r.Intn(len(names) + 1)
					names = append(names[:pos], append([]string{names[r.Intn(len(names))]}, names[pos:]...)...)
				}
			}
			c1 := Call{Method: pr[0], B: b, Names: names, Pool: t.Pool != nil}
			c2 := Call{Method: pr[1], B: b, Names: names, Pool: t.Pool != nil}
			o1 := t.Invoke(c1, NewLog())
			o2 := t.Invoke(c2, NewLog())
			k.Eval(2)
			k.Count("tag_equivalence_pairs", 1)
			v1, v2 := newView(rs, o1.Events), newView(rs, o2.Events)
			same := len(v1.order) == len(v2.order) && (o1.Err == nil) == (o2.Err == nil) && len(o1.Result) == len(o2.Result)
			for i := 0; same && i < len(v1.order); i++ {
				same = v1.order[i] == v2.order[i]
			}
			for key := range o1.Result {
				if _, ok := o2.Result[key]; !ok {
					same = false
				}
			}
			if !same {
				m := pr[1]
				if c1.Pool {
					m = "pool." + m
				}
				k.Violate(m+"/differs-from-tagless", fmt.Sprintf("%s with a tag that no rule sets ran %v (err nil=%v), the variant without a tag %s ran %v (err nil=%v) on the same builder and names", m, v2.names(v2.order), o2.Err == nil, pr[0], v1.names(v1.order), o1.Err == nil),
					map[string]interface{}{"rule_text": rs.Text, "names": names, "b": b})
			}
			k.Distinct("tageq", pr[1], c1.Pool, b, len(names), evString(o2.Events))
		}
	}
	// ... and on a rule set that removals have emptied (not "cleared"): whatever the variant without a tag
	// says about it (nothing to run: an error, or nil), the tagged twin says the same
	if r.Intn(2) == 0 {
		all := rs.Names()
		eng.RB.RemoveRules(all)
		pool.Pool.RemoveRules(all)
		for _, pr := range append(pairs, [2]string{MMix, MMixStop}) {
			for _, t := range []*Target{eng, pool} {
				c1 := Call{Method: pr[0], B: true, Names: all[:2], Pool: t.Pool != nil}
				c2 := Call{Method: pr[1], B: true, Names: all[:2], Pool: t.Pool != nil}
				o1 := t.Invoke(c1, NewLog())
				o2 := t.Invoke(c2, NewLog())
				k.Eval(2)
				k.Count("tag_equivalence_pairs_on_an_emptied_set", 1)
				if (o1.Err == nil) != (o2.Err == nil) || (o1.Panic == nil) != (o2.Panic == nil) || len(o1.Events)+len(o2.Events) > 0 {
					m := pr[1]
					if c1.Pool {
						m = "pool." + m
					}
					k.Violate(m+"/differs-from-tagless-on-emptied-set", fmt.Sprintf("after every rule was removed, %s with a tag that nobody sets returned err nil=%v (panic %v), the variant without a tag %s err nil=%v (panic %v)", m, o2.Err == nil, o2.Panic, pr[0], o1.Err == nil, o1.Panic),
						map[string]interface{}{"rule_text": rs.Text})
				}
			}
		}
	}
}

// SoloStatement (C11): rules whose body is exactly ONE statement - a stray break / continue outside any
// loop, directly or inside single-statement if / else blocks. Such a rule compiles, fails when it runs, and has
// not returned: no result entry, a non-nil error.
func SoloStatement(k *fw.Case) {
	text := `
rule "solo-break" salience 3 begin
  break
end
rule "solo-if" salience 2 begin
  if 1 < 2 { continue }
end
rule "solo-else" salience 1 begin
  if 2 < 1 { zs = 1 } else { if 1 < 2 { break } }
end
`
	obs := NewObs()
	eng, err := NewEngineTarget(obs, text)
	if err != nil {
		k.Inconclusive("solo-statement text does not compile: " + trunc(err.Error(), 200))
		return
	}
	pool, err := NewPoolTarget(obs, text, 1, 2, 1+k.Rng.Intn(4))
	if err != nil {
		k.Inconclusive("solo-statement text does not compile in a pool")
		return
	}
	for _, t := range []*Target{eng, pool} {
		for _, m := range []string{MExecute, MConcurrent, MMix, MInverse, MSel, MSelConcurrent, MDAG, MNSortMConc} {
			c := Call{Method: m, B: true, Pool: t.Pool != nil, Names: []string{"solo-if", "solo-break", "solo-else"}, N: 1, M: 2, DAG: [][]string{{"solo-break", "solo-if"}, {"solo-else"}}}
			out := t.Invoke(c, NewLog())
			k.Eval(1)
			k.Count("solo_statement_calls", 1)
			name := m
			if c.Pool {
				name = "pool." + m
			}
			if out.Panic != nil {
				continue // C09's subject
			}
			if len(out.Result) > 0 {
				k.Violate(name+"/result", fmt.Sprintf("%s: rules whose only statement is a stray break / continue have result entries %v although none of them reached a return", name, out.Result), map[string]interface{}{"rule_text": text})
			}
		}
	}
}
