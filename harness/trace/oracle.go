package trace

import (
	"fmt"
	"sort"
	"sync"

	"github.com/bilibili/gengine/engine"
)

var compileMu sync.Mutex

// CompileLocked serialises compiles inside one process: the ANTLR runtime keeps
// unsynchronised process-global caches (out of scope for every property).
func CompileLocked(f func() error) error {
	compileMu.Lock()
	defer compileMu.Unlock()
	return f()
}

// Clause names. Each property family keeps only the clauses its statement speaks about.
const (
	ClSeq      = "seq"      // rules of a sequential stage overlapped
	ClOnce     = "once"     // a scheduled rule ran != once / incomplete at return / unknown event
	ClOrder    = "order"    // priority order violated
	ClPolicy   = "policy"   // error policy (stop/continue) violated
	ClError    = "error"    // returned error nil/non-nil against the faults that happened
	ClBarrier  = "barrier"  // a later stage started before an earlier one had finished
	ClWindow   = "window"   // a rule outside the N+M window ran / window not the top-priority rules
	ClSelect   = "select"   // unselected rule ran, selected one missing, empty selection did not fail
	ClGiven    = "given"    // as-given order not respected
	ClDag      = "dag"      // dag layer rule (occurrences, unknown names, stop after failing layer)
	ClStop     = "stoptag"  // something started after the stop tag was set
	ClResult   = "result"   // result map != rules that returned in this call
	ClPanic    = "panic"    // the call panicked into the caller
	ClFaultRan = "faultran" // a rule that must fault completed normally (used by C15)
	ClLate     = "late"     // events appeared after the call had returned
	ClLocalVal = "localval" // a rule that returns its own local got another value (C15)
)

// Finding is one oracle complaint about one call.
type Finding struct {
	Clause string `json:"clause"`
	Msg    string `json:"msg"`
}

type interval struct {
	st, en int
	kind   byte
}

type view struct {
	rs     *RuleSet
	byID   map[int]*Rule
	iv     map[int][]interval // per rule id, in start order
	order  []int              // rule ids in order of start events
	f      []Finding
	events []Ev
}

func (v *view) add(clause, format string, a ...interface{}) {
	v.f = append(v.f, Finding{clause, fmt.Sprintf(format, a...)})
}

func newView(rs *RuleSet, evs []Ev) *view {
	v := &view{rs: rs, byID: map[int]*Rule{}, iv: map[int][]interval{}, events: evs}
	for _, r := range rs.Rules {
		v.byID[r.ID] = r
	}
	open := map[int][]int{} // id -> indexes into iv[id] not yet ended
	for _, e := range evs {
		if _, ok := v.byID[e.ID]; !ok {
			v.add(ClOnce, "event %s of an id that is no rule of this set (a statement that must not run did run)", e)
			continue
		}
		switch e.Kind {
		case 's':
			v.iv[e.ID] = append(v.iv[e.ID], interval{st: e.Seq, en: -1})
			open[e.ID] = append(open[e.ID], len(v.iv[e.ID])-1)
			v.order = append(v.order, e.ID)
		case 'e', 'f':
			r := v.byID[e.ID]
			o := open[e.ID]
			if len(o) == 0 {
				if e.Kind == 'e' && r.Fails() {
					// en after fl: the construct that must fault did not fault
					v.add(ClFaultRan, "rule %q continued after the construct that must fault", r.Name)
				} else {
					v.add(ClOnce, "end event %s without a start", e)
				}
				continue
			}
			if e.Kind == 'e' && r.Fails() {
				v.add(ClFaultRan, "rule %q reached its normal end although it must fault", r.Name)
			}
			idx := o[0]
			v.iv[e.ID][idx].en = e.Seq
			v.iv[e.ID][idx].kind = e.Kind
			open[e.ID] = o[1:]
		}
	}
	return v
}

func (v *view) name(id int) string {
	if r := v.byID[id]; r != nil {
		return r.Name
	}
	return fmt.Sprintf("#%d", id)
}

func (v *view) names(ids []int) []string {
	out := make([]string, len(ids))
	for i, id := range ids {
		out[i] = v.name(id)
	}
	return out
}

// complete checks that every started execution also ended before the call returned and that
// faulting rules faulted / healthy rules ended normally.
func (v *view) complete() {
	for id, ivs := range v.iv {
		r := v.byID[id]
		for _, x := range ivs {
			if x.en < 0 {
				v.add(ClOnce, "rule %q started but had not finished when the call returned", r.Name)
				continue
			}
			if r.Fails() && x.kind != 'f' {
				v.add(ClFaultRan, "rule %q must fault but ended normally", r.Name)
			}
			if !r.Fails() && x.kind != 'e' {
				v.add(ClOnce, "harness: healthy rule %q logged a fault end", r.Name)
			}
		}
	}
}

func (v *view) ran(id int) bool { return len(v.iv[id]) > 0 }

func (v *view) anyRunFailed() bool {
	for id := range v.iv {
		if v.byID[id].Fails() {
			return true
		}
	}
	return false
}

func (v *view) errClause(err error) {
	want := v.anyRunFailed()
	if want && err == nil {
		v.add(ClError, "a rule that ran faulted but the call returned a nil error")
	}
	if !want && err != nil {
		v.add(ClError, "no rule that ran faulted but the call returned an error: %v", trunc(err.Error(), 200))
	}
}

func trunc(s string, n int) string {
	if len(s) > n {
		return s[:n] + "…"
	}
	return s
}

func idSet(rules []*Rule) map[int]bool {
	m := map[int]bool{}
	for _, r := range rules {
		m[r.ID] = true
	}
	return m
}

// noneOutside: nothing outside `allowed` ran.
func (v *view) noneOutside(allowed map[int]bool, clause, what string) {
	for id := range v.iv {
		if !allowed[id] {
			v.add(clause, "rule %q ran although it is %s", v.name(id), what)
		}
	}
}

func (v *view) onceEach(ids map[int]bool, clause string) {
	for id := range ids {
		if n := len(v.iv[id]); n != 1 {
			v.add(clause, "rule %q ran %d times, expected exactly once", v.name(id), n)
		}
	}
}

func (v *view) maxEnd(ids []int) int {
	m := -1
	for _, id := range ids {
		for _, x := range v.iv[id] {
			if x.en > m {
				m = x.en
			}
			if x.en < 0 { // unfinished: treat as ending after everything
				return 1 << 30
			}
		}
	}
	return m
}

func (v *view) minStart(ids []int) int {
	m := 1 << 30
	for _, id := range ids {
		for _, x := range v.iv[id] {
			if x.st < m {
				m = x.st
			}
		}
	}
	return m
}

// sequential checks that the log restricted to ids is st end st end ... with no overlap.
func (v *view) sequential(ids map[int]bool, what string) {
	cur := -1
	for _, e := range v.events {
		if !ids[e.ID] {
			continue
		}
		switch e.Kind {
		case 's':
			if cur != -1 {
				v.add(ClSeq, "%s: rule %q started while rule %q was still running", what, v.name(e.ID), v.name(cur))
			}
			cur = e.ID
		case 'e', 'f':
			if cur == e.ID {
				cur = -1
			}
		}
	}
}

func (v *view) desc(order []int, what string) {
	for i := 1; i < len(order); i++ {
		if v.byID[order[i]].Sal > v.byID[order[i-1]].Sal {
			v.add(ClOrder, "%s: rule %q (salience %d) ran after rule %q (salience %d)", what, v.name(order[i]), v.byID[order[i]].Sal, v.name(order[i-1]), v.byID[order[i-1]].Sal)
		}
	}
}

func dedupOrder(order []int) ([]int, bool) {
	seen := map[int]bool{}
	dup := false
	var out []int
	for _, id := range order {
		if seen[id] {
			dup = true
			continue
		}
		seen[id] = true
		out = append(out, id)
	}
	return out, dup
}

func minSal(v *view, ids []int) int64 {
	m := int64(1<<63 - 1)
	for _, id := range ids {
		if s := v.byID[id].Sal; s < m {
			m = s
		}
	}
	return m
}

func maxSalOf(v *view, ids []int) int64 {
	m := int64(-1 << 63)
	for _, id := range ids {
		if s := v.byID[id].Sal; s > m {
			m = s
		}
	}
	return m
}

func keys(m map[int]bool) []int {
	out := make([]int, 0, len(m))
	for k := range m {
		out = append(out, k)
	}
	sort.Ints(out)
	return out
}

// selection resolves a name list against the rule set: existing rules in the caller's order.
func selection(rs *RuleSet, names []string) (sel []*Rule, unknown int) {
	for _, n := range names {
		if r := rs.ByName(n); r != nil {
			sel = append(sel, r)
		} else {
			unknown++
		}
	}
	return
}

// ---- rows of the specification table (DESIGN.md appendix A) ----

// rowSort: sequential execution of S. given==nil: some non-increasing salience order; given!=nil: exactly that order.
func (v *view) rowSort(S []*Rule, b bool, stop bool, given []*Rule, err error) {
	ids := idSet(S)
	v.noneOutside(ids, ClSelect, "not part of the set this call schedules")
	v.sequential(ids, "sequential model")
	order, dup := dedupOrder(v.order)
	if dup {
		v.add(ClOnce, "a rule ran more than once: %v", v.names(v.order))
	}
	var ord []int
	for _, id := range order {
		if ids[id] {
			ord = append(ord, id)
		}
	}
	if given == nil {
		v.desc(ord, "sort order")
	} else {
		for i, id := range ord {
			if i >= len(given) || given[i].ID != id {
				v.add(ClGiven, "as-given order: position %d ran %q, caller's order is %v", i, v.name(id), namesOf(given))
				break
			}
		}
	}
	// where must the run end?
	endAt := -1
	endWhy := ""
	for i, id := range ord {
		r := v.byID[id]
		if !b && r.Fails() {
			endAt, endWhy = i, ClPolicy
			break
		}
		if stop && r.SetStop {
			endAt, endWhy = i, ClStop
			break
		}
	}
	if endAt >= 0 {
		if len(ord) > endAt+1 {
			if endWhy == ClPolicy {
				v.add(ClPolicy, "stop-on-error: %v ran after rule %q had failed", v.names(ord[endAt+1:]), v.name(ord[endAt]))
			} else {
				v.add(ClStop, "%v started after rule %q had set the stop tag", v.names(ord[endAt+1:]), v.name(ord[endAt]))
			}
		}
		// every rule not run must not outrank the last one (only meaningful for priority order)
		if given == nil && len(ord) == endAt+1 {
			last := v.byID[ord[endAt]].Sal
			for _, r := range S {
				if !v.ran(r.ID) && r.Sal > last {
					v.add(ClOrder, "rule %q (salience %d) was skipped although the run ended at %q (salience %d)", r.Name, r.Sal, v.name(ord[endAt]), last)
				}
			}
		}
	} else {
		for _, r := range S {
			if !v.ran(r.ID) {
				v.add(ClOnce, "rule %q did not run although nothing ended the run (policy/stop tag) before it", r.Name)
			}
		}
	}
	v.complete()
	v.errClause(err)
}

func namesOf(rs []*Rule) []string {
	out := make([]string, len(rs))
	for i, r := range rs {
		out[i] = r.Name
	}
	return out
}

func (v *view) rowConcurrent(S []*Rule, err error) {
	ids := idSet(S)
	v.noneOutside(ids, ClSelect, "not part of the set this call schedules")
	v.onceEach(ids, ClOnce)
	v.complete()
	v.errClause(err)
}

func (v *view) rowMix(S []*Rule, stop bool, err error) {
	ids := idSet(S)
	v.noneOutside(ids, ClSelect, "not part of the set this call schedules")
	v.complete()
	if len(v.order) == 0 {
		if len(S) > 0 {
			v.add(ClOnce, "mix model ran nothing although %d rules are scheduled", len(S))
		}
		v.errClause(err)
		return
	}
	h := v.order[0]
	if !ids[h] {
		v.errClause(err)
		return
	}
	if v.byID[h].Sal < maxSalOf(v, keys(ids)) {
		v.add(ClOrder, "mix: first rule %q has salience %d but the highest is %d", v.name(h), v.byID[h].Sal, maxSalOf(v, keys(ids)))
	}
	var others []int
	for id := range ids {
		if id != h {
			others = append(others, id)
		}
	}
	sort.Ints(others)
	if len(v.iv[h]) != 1 {
		v.add(ClOnce, "mix: head rule %q ran %d times", v.name(h), len(v.iv[h]))
	}
	if me, ms := v.maxEnd([]int{h}), v.minStart(others); ms < me {
		v.add(ClBarrier, "mix: a rule started (seq %d) before the head rule %q had finished (seq %d)", ms, v.name(h), me)
	}
	othersRan := false
	for _, id := range others {
		if v.ran(id) {
			othersRan = true
		}
	}
	switch {
	case v.byID[h].Fails():
		if othersRan {
			v.add(ClPolicy, "mix: the head rule %q failed but other rules ran", v.name(h))
		}
	case stop && v.byID[h].SetStop:
		if othersRan {
			v.add(ClStop, "mix: the head rule %q set the stop tag but other rules ran", v.name(h))
		}
	default:
		om := map[int]bool{}
		for _, id := range others {
			om[id] = true
		}
		v.onceEach(om, ClOnce)
	}
	v.errClause(err)
}

func (v *view) rowInverse(S []*Rule, err error) {
	ids := idSet(S)
	v.noneOutside(ids, ClSelect, "not part of the set this call schedules")
	v.complete()
	order, dup := dedupOrder(v.order)
	if dup {
		v.add(ClOnce, "inverse mix: a rule ran more than once: %v", v.names(v.order))
	}
	all := keys(ids)
	lo := minSal(v, all)
	switch {
	case len(order) == len(all) && len(all) > 0:
		l := order[len(order)-1]
		if v.byID[l].Sal > lo {
			v.add(ClOrder, "inverse mix: last rule %q has salience %d but the lowest is %d", v.name(l), v.byID[l].Sal, lo)
		}
		others := order[:len(order)-1]
		if me, ms := v.maxEnd(others), v.minStart([]int{l}); ms < me {
			v.add(ClBarrier, "inverse mix: the last rule %q started (seq %d) before all others had finished (seq %d)", v.name(l), ms, me)
		}
		for _, id := range others {
			if v.byID[id].Fails() {
				v.add(ClPolicy, "inverse mix: rule %q failed but the lowest-priority rule %q still ran", v.name(id), v.name(l))
				break
			}
		}
	case len(order) == len(all)-1:
		var missing int
		for _, id := range all {
			if !v.ran(id) {
				missing = id
			}
		}
		if v.byID[missing].Sal > lo {
			v.add(ClOrder, "inverse mix: the rule that did not run, %q, is not a lowest-priority rule", v.name(missing))
		}
		failed := false
		for _, id := range order {
			if v.byID[id].Fails() {
				failed = true
			}
		}
		if !failed {
			v.add(ClOnce, "inverse mix: the last rule %q did not run although no earlier rule failed", v.name(missing))
		}
	case len(all) == 0:
	default:
		// with <=2 rules the model degenerates to a sequential run; with >=3 all but the last must run
		v.add(ClOnce, "inverse mix: %d of %d scheduled rules ran: %v", len(order), len(all), v.names(order))
	}
	v.errClause(err)
}

const (
	nmSortConc = iota
	nmConcSort
	nmConcConc
)

func (v *view) rowNM(kind int, S []*Rule, n, m int, b bool, err error) {
	ids := idSet(S)
	v.noneOutside(ids, ClWindow, "outside the rule set of this call")
	v.complete()
	order, dup := dedupOrder(v.order)
	if dup {
		v.add(ClOnce, "N-M: a rule ran more than once: %v", v.names(v.order))
	}
	var ord []int
	for _, id := range order {
		if ids[id] {
			ord = append(ord, id)
		}
	}
	if len(ord) > n+m {
		v.add(ClWindow, "N-M: %d rules ran, the window is N+M=%d: %v", len(ord), n+m, v.names(ord))
		v.errClause(err)
		return
	}
	// window: everything that ran outranks (>=) everything that did not
	var notRun []int
	for _, id := range keys(ids) {
		if !v.ran(id) {
			notRun = append(notRun, id)
		}
	}
	if len(ord) > 0 && len(notRun) > 0 && minSal(v, ord) < maxSalOf(v, notRun) {
		v.add(ClWindow, "N-M: a rule of salience %d ran while one of salience %d did not", minSal(v, ord), maxSalOf(v, notRun))
	}
	k := len(ord)
	s1 := ord
	if k > n {
		s1 = ord[:n]
	}
	var s2 []int
	if k > n {
		s2 = ord[n:]
	}
	s1set, s2set := map[int]bool{}, map[int]bool{}
	for _, id := range s1 {
		s1set[id] = true
	}
	for _, id := range s2 {
		s2set[id] = true
	}
	if len(s2) > 0 {
		if minSal(v, s1) < maxSalOf(v, s2) {
			v.add(ClWindow, "N-M: stage one contains salience %d, stage two salience %d", minSal(v, s1), maxSalOf(v, s2))
		}
		if me, ms := v.maxEnd(s1), v.minStart(s2); ms < me {
			v.add(ClBarrier, "N-M: a stage-two rule started (seq %d) before stage one had finished (seq %d)", ms, me)
		}
	}
	s1fail, s2fail := -1, -1
	for i, id := range s1 {
		if v.byID[id].Fails() && s1fail < 0 {
			s1fail = i
		}
	}
	for i, id := range s2 {
		if v.byID[id].Fails() && s2fail < 0 {
			s2fail = i
		}
	}
	if kind == nmSortConc {
		v.sequential(s1set, "sorted stage one")
		v.desc(s1, "sorted stage one")
	}
	if kind == nmConcSort {
		v.sequential(s2set, "sorted stage two")
		v.desc(s2, "sorted stage two")
	}
	if b {
		if k != n+m {
			v.add(ClOnce, "N-M continue-on-error: %d of the %d window rules ran: %v", k, n+m, v.names(ord))
		}
		v.errClause(err)
		return
	}
	// stop-on-error
	switch kind {
	case nmSortConc:
		if s1fail >= 0 {
			if k != s1fail+1 {
				v.add(ClPolicy, "N-sort-M-concurrent stop-on-error: rule %q failed in the sorted stage but %d rules ran", v.name(s1[s1fail]), k)
			}
		} else if k != n+m {
			v.add(ClPolicy, "N-sort-M-concurrent stop-on-error: nothing failed in the sorted stage but only %d of %d window rules ran: %v", k, n+m, v.names(ord))
		}
	case nmConcSort:
		switch {
		case k < n:
			v.add(ClOnce, "N-concurrent-M-sort: only %d of the %d stage-one rules ran", k, n)
		case s1fail >= 0:
			if k != n {
				v.add(ClPolicy, "N-concurrent-M-sort stop-on-error: stage one failed but stage two ran %v", v.names(s2))
			}
		case s2fail >= 0:
			if len(s2) != s2fail+1 {
				v.add(ClPolicy, "N-concurrent-M-sort stop-on-error: rule %q failed in the sorted stage but later rules ran", v.name(s2[s2fail]))
			}
		default:
			if k != n+m {
				v.add(ClPolicy, "N-concurrent-M-sort stop-on-error: nothing failed but only %d of %d window rules ran: %v", k, n+m, v.names(ord))
			}
		}
	case nmConcConc:
		switch {
		case k < n:
			v.add(ClOnce, "N-concurrent-M-concurrent: only %d of the %d stage-one rules ran", k, n)
		case s1fail >= 0:
			if k != n {
				v.add(ClPolicy, "N-concurrent-M-concurrent stop-on-error: stage one failed but stage two ran %v", v.names(s2))
			}
		default:
			if k != n+m {
				v.add(ClPolicy, "N-concurrent-M-concurrent stop-on-error: stage one did not fail but only %d of %d window rules ran", k, n+m)
			}
		}
	}
	v.errClause(err)
}

func (v *view) rowFailWithoutRunning(clause, why string, err error) {
	if len(v.events) > 0 {
		v.add(clause, "%s: the call must not run anything but ran %v", why, v.names(v.order))
	}
	if err == nil {
		v.add(clause, "%s: the call must fail but returned a nil error", why)
	}
}

func (v *view) rowDAG(dag [][]string, err error) {
	v.complete()
	used := map[int]int{}
	prevMaxEnd := -1
	stopped := false
	for li, layer := range dag {
		occ := map[int]int{}
		for _, n := range layer {
			if r := v.rs.ByName(n); r != nil {
				occ[r.ID]++
			}
		}
		if stopped {
			for id := range occ {
				if len(v.iv[id]) > used[id] {
					v.add(ClDag, "dag: rule %q of layer %d ran although an earlier layer had failed", v.name(id), li)
					used[id] = len(v.iv[id])
				}
			}
			continue
		}
		layerMin, layerMax := 1<<30, -1
		failed := false
		for _, id := range keys2(occ) {
			c := occ[id]
			have := len(v.iv[id]) - used[id]
			if have < c {
				v.add(ClDag, "dag: rule %q occurs %d× in layer %d but ran %d× there", v.name(id), c, li, have)
				c = have
			}
			for _, x := range v.iv[id][used[id] : used[id]+c] {
				if x.st < layerMin {
					layerMin = x.st
				}
				en := x.en
				if en < 0 {
					en = 1 << 30
				}
				if en > layerMax {
					layerMax = en
				}
			}
			used[id] += c
			if v.byID[id].Fails() && c > 0 {
				failed = true
			}
		}
		if layerMax >= 0 {
			if layerMin < prevMaxEnd {
				v.add(ClBarrier, "dag: a rule of layer %d started (seq %d) before the previous layers had finished (seq %d)", li, layerMin, prevMaxEnd)
			}
			if layerMax > prevMaxEnd {
				prevMaxEnd = layerMax
			}
		}
		if failed {
			stopped = true
		}
	}
	for id, ivs := range v.iv {
		if len(ivs) > used[id] {
			v.add(ClDag, "dag: rule %q ran %d× more than its occurrences in the layers that may run", v.name(id), len(ivs)-used[id])
		}
	}
	v.errClause(err)
}

func keys2(m map[int]int) []int {
	out := make([]int, 0, len(m))
	for k := range m {
		out = append(out, k)
	}
	sort.Ints(out)
	return out
}

// resultClause: the result map is exactly the rules that reached `return` in this call.
func (v *view) resultClause(res map[string]interface{}) {
	want := map[string]interface{}{}
	for id, ivs := range v.iv {
		r := v.byID[id]
		if r == nil || r.Ret == RetNone {
			continue
		}
		for _, x := range ivs {
			if x.kind == 'e' {
				switch r.Ret {
				case RetBare:
					want[r.Name] = nil
				default:
					want[r.Name] = r.RetVal
				}
			}
		}
	}
	for k, wv := range want {
		gv, ok := res[k]
		if !ok {
			v.add(ClResult, "rule %q returned in this call but has no entry in the result map", k)
			continue
		}
		if wv == nil {
			if gv != nil {
				v.add(ClResult, "rule %q did a bare return but the result map holds %v (%T)", k, gv, gv)
			}
			continue
		}
		if g64, ok := gv.(int64); !ok || g64 != wv.(int64) {
			v.add(ClResult, "rule %q returned %v but the result map holds %v (%T)", k, wv, gv, gv)
			if r := v.rs.ByName(k); r != nil && r.Ret == RetLocal {
				v.add(ClLocalVal, "rule %q assigned its local xloc=%v and returned it, but the value that came back is %v (%T)", k, wv, gv, gv)
			}
		}
	}
	for k, gv := range res {
		if _, ok := want[k]; !ok {
			v.add(ClResult, "result map has an entry %q=%v for a rule that did not return in this call", k, gv)
		}
	}
}

// Check validates one call against the specification table.
func Check(rs *RuleSet, c Call, out Outcome, cleared bool) []Finding {
	v := newView(rs, out.Events)
	if out.Panic != nil {
		v.add(ClPanic, "the call panicked into the caller: %v", trunc(fmt.Sprint(out.Panic), 300))
		if c.IsSelected() {
			S, unknown := selection(rs, c.Names)
			nm := c.Method == MSelNSortMConc || c.Method == MSelNConcMSort || c.Method == MSelNConcMConc
			if len(S) == 0 || (nm && (unknown > 0 || len(c.Names) != c.N+c.M)) {
				v.add(ClSelect, "a selected call that must fail without running anything panicked instead: %v", trunc(fmt.Sprint(out.Panic), 200))
			}
		}
		return v.f
	}
	all := rs.Rules
	err := out.Err
	if cleared {
		if len(v.events) > 0 {
			v.add(ClOnce, "cleared pool ran %v", v.names(v.order))
		}
		if len(out.Result) != 0 {
			v.add(ClResult, "cleared pool returned a non-empty result map")
		}
		return v.f
	}
	method := c.Method
	b := c.B
	// the SpecifiedEM pool methods are the row of the model set
	if method == MPoolEM || method == MPoolEMMulti {
		switch c.EM {
		case engine.SortModel:
			method, b = MExecute, true
		case engine.ConcurrentModel:
			method = MConcurrent
		case engine.MixModel:
			method = MMix
		case engine.InverseMixModel:
			method = MInverse
		}
	}
	if method == MPoolEMSel {
		switch c.EM {
		case engine.SortModel:
			method = MSel
		case engine.ConcurrentModel:
			method = MSelConcurrent
		case engine.MixModel:
			method = MSelMix
		case engine.InverseMixModel:
			method = MSelInverse
		}
	}
	var S []*Rule
	if c.IsSelected() {
		S, _ = selection(rs, c.Names)
	}
	if c.DupNames {
		// only decided: nothing outside the selection runs
		v.noneOutside(idSet(S), ClSelect, "not named in the (duplicate-carrying) selection")
		return v.f
	}
	switch method {
	case MNSortMConc, MNConcMSort, MNConcMConc:
		if c.N < 1 || c.M < 1 || c.N+c.M > len(all) {
			// an invalid split of an un-selected N-M call: what it does is not stated, but the
			// result map still is exactly the rules that returned in this call
			v.resultClause(out.Result)
			return v.f
		}
	}
	switch method {
	case MExecute:
		v.rowSort(all, b, false, nil, err)
	case MExecuteStop:
		v.rowSort(all, b, true, nil, err)
	case MConcurrent:
		v.rowConcurrent(all, err)
	case MMix:
		v.rowMix(all, false, err)
	case MMixStop:
		v.rowMix(all, true, err)
	case MInverse:
		v.rowInverse(all, err)
	case MSel, MSelCtl, MSelCtlGiven, MSelCtlStop, MSelCtlStopGiven, MSelConcurrent, MSelMix, MSelInverse:
		if len(S) == 0 {
			v.rowFailWithoutRunning(ClSelect, "no named rule exists", err)
			break
		}
		switch method {
		case MSel:
			v.rowSort(S, true, false, nil, err)
		case MSelCtl:
			v.rowSort(S, b, false, nil, err)
		case MSelCtlGiven:
			v.rowSort(S, b, false, S, err)
		case MSelCtlStop:
			v.rowSort(S, b, true, nil, err)
		case MSelCtlStopGiven:
			v.rowSort(S, b, true, S, err)
		case MSelConcurrent:
			v.rowConcurrent(S, err)
		case MSelMix:
			v.rowMix(S, false, err)
		case MSelInverse:
			v.rowInverse(S, err)
		}
	case MNSortMConc:
		v.rowNM(nmSortConc, all, c.N, c.M, b, err)
	case MNConcMSort:
		v.rowNM(nmConcSort, all, c.N, c.M, b, err)
	case MNConcMConc:
		v.rowNM(nmConcConc, all, c.N, c.M, b, err)
	case MSelNSortMConc, MSelNConcMSort, MSelNConcMConc:
		_, unknown := selection(rs, c.Names)
		if unknown > 0 || len(c.Names) != c.N+c.M {
			v.rowFailWithoutRunning(ClSelect, "selected N-M call with an unknown name or a name count different from N+M", err)
			break
		}
		kind := nmSortConc
		if method == MSelNConcMSort {
			kind = nmConcSort
		} else if method == MSelNConcMConc {
			kind = nmConcConc
		}
		v.rowNM(kind, S, c.N, c.M, b, err)
	case MDAG:
		v.rowDAG(c.DAG, err)
	default:
		v.add(ClOnce, "harness: no oracle row for %s", method)
	}
	v.resultClause(out.Result)
	return v.f
}
