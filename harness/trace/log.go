// Package trace is engine E2: observer functions injected into generated rules record a
// globally sequenced event log; an oracle written from the property statements validates
// the log of every engine / pool call.
package trace

import (
	"runtime"
	"strings"
	"sync"
	"sync/atomic"
	"time"
)

// Ev is one observer event. Seq is the position in the log (one logical clock).
type Ev struct {
	Seq  int   `json:"q"`
	Kind byte  `json:"k"` // 's' start of a rule body, 'e' normal end, 'f' about to fault
	ID   int   `json:"i"` // rule id inside the rule set
	G    int64 `json:"g"` // goroutine hint (distinct per observer goroutine), only informational
}

func (e Ev) String() string { return string(e.Kind) + itoa(e.ID) }

func itoa(i int) string {
	if i == 0 {
		return "0"
	}
	neg := i < 0
	if neg {
		i = -i
	}
	var b [20]byte
	p := len(b)
	for i > 0 {
		p--
		b[p] = byte('0' + i%10)
		i /= 10
	}
	if neg {
		p--
		b[p] = '-'
	}
	return string(b[p:])
}

// Hold makes the end observer of one rule wait until a forbidden start has been logged
// (then a violation is already certain) or the provocation delay has expired.
type Hold struct {
	Forbid map[int]bool // rule ids whose start ends the hold; nil = pure delay
	Delay  time.Duration
}

// Log is the per-call event log. All methods are safe for concurrent use.
type Log struct {
	mu    sync.Mutex
	evs   []Ev
	holds map[int]*Hold
	held  int32 // number of holds that were actually entered
	once  map[int]bool // Pn1: ids whose first invocation in this call has happened
}

func NewLog() *Log { return &Log{holds: map[int]*Hold{}} }

func (l *Log) SetHold(id int, h *Hold) {
	l.mu.Lock()
	l.holds[id] = h
	l.mu.Unlock()
}

func (l *Log) add(kind byte, id int) {
	l.mu.Lock()
	l.evs = append(l.evs, Ev{Seq: len(l.evs), Kind: kind, ID: id})
	l.mu.Unlock()
}

func (l *Log) Len() int {
	l.mu.Lock()
	defer l.mu.Unlock()
	return len(l.evs)
}

func (l *Log) Snapshot() []Ev {
	l.mu.Lock()
	defer l.mu.Unlock()
	out := make([]Ev, len(l.evs))
	copy(out, l.evs)
	return out
}

func (l *Log) HoldsEntered() int { return int(atomic.LoadInt32(&l.held)) }

func (l *Log) hold(id int) {
	l.mu.Lock()
	h := l.holds[id]
	if h != nil {
		delete(l.holds, id) // a rule that runs twice holds only once
	}
	from := len(l.evs)
	l.mu.Unlock()
	if h == nil {
		return
	}
	atomic.AddInt32(&l.held, 1)
	deadline := time.Now().Add(h.Delay)
	for {
		if h.Forbid != nil {
			l.mu.Lock()
			hit := false
			for _, e := range l.evs[from:] {
				if e.Kind == 's' && h.Forbid[e.ID] {
					hit = true
					break
				}
			}
			from = len(l.evs)
			l.mu.Unlock()
			if hit {
				return
			}
		}
		if !time.Now().Before(deadline) {
			return
		}
		runtime.Gosched()
		time.Sleep(20 * time.Microsecond)
	}
}

// Obs is the set of observer functions injected into the data context. The log they write
// to can be swapped between calls.
type Obs struct {
	cur atomic.Value // *Log
}

func NewObs() *Obs {
	o := &Obs{}
	o.cur.Store(NewLog())
	return o
}

func (o *Obs) Use(l *Log)    { o.cur.Store(l) }
func (o *Obs) Current() *Log { return o.cur.Load().(*Log) }

// St is called first in every generated rule body.
func (o *Obs) St(id int64) { o.Current().add('s', int(id)) }

// En is called last in every generated rule body that completes normally.
func (o *Obs) En(id int64) {
	l := o.Current()
	l.hold(int(id))
	l.add('e', int(id))
}

// Fl is called immediately before the construct that makes the rule fault; it returns 0.
func (o *Obs) Fl(id int64) int64 {
	l := o.Current()
	l.hold(int(id))
	l.add('f', int(id))
	return 0
}

// Pn logs like Fl and then panics (a panicking injected function).
func (o *Obs) Pn(id int64) int64 {
	l := o.Current()
	l.hold(int(id))
	l.add('f', int(id))
	panic("injected function panics on purpose")
}

// Pn1 panics (after logging like Fl) the FIRST time it is called for id within one call and returns
// quietly afterwards: of two occurrences of a rule in one DAG layer one fails, the other succeeds - and,
// because the failing one holds first, usually finishes after it.
func (o *Obs) Pn1(id int64) int64 {
	l := o.Current()
	l.mu.Lock()
	if l.once == nil {
		l.once = map[int]bool{}
	}
	first := !l.once[int(id)]
	l.once[int(id)] = true
	l.mu.Unlock()
	if first {
		l.add('f', int(id))
		panic("injected function panics on its first invocation only")
	}
	time.Sleep(300 * time.Microsecond)
	return id
}

var bigMessage = strings.Repeat("a large diagnostic payload ", 150000) // ~4 MB

// Pnb logs like Fl and panics with a multi-megabyte message: turning it into the rule's
// error takes milliseconds, which keeps the failing goroutine busy AFTER the rule body has
// finished - a barrier that is released before the error is recorded becomes visible.
func (o *Obs) Pnb(id int64) int64 {
	l := o.Current()
	l.hold(int(id))
	l.add('f', int(id))
	panic(bigMessage)
}

// Apis returns the map to inject (also usable as the pool's apiOuter).
func (o *Obs) Apis() map[string]interface{} {
	return map[string]interface{}{
		"st":  o.St,
		"en":  o.En,
		"fl":  o.Fl,
		"pn":  o.Pn,
		"pnb": o.Pnb,
		"pn1": o.Pn1,
		"lsv": LocalSrc,
		"hid": hidden,
		"tgt": storeTarget,
	}
}

// storeTarget is injected as tgt: rules store into tgt.F (the value is never read by an oracle).
var storeTarget = &struct{ F int64 }{}

// hidden is injected as hid: its only field is unexported.
type hiddenT struct{ h int64 }

var hidden = &hiddenT{h: 5}

// LocalSrc is injected as lsv: lsv[j] == 5000+j. A local assigned from one of its elements is assigned from an
// addressable location of injected data (the local gets the value, and every execution its own).
var LocalSrc = func() []int64 {
	s := make([]int64, 8192)
	for j := range s {
		s[j] = int64(5000 + j)
	}
	return s
}()

// ---- extra observers used by the conc-block monitor (C18) ----

// Ev completes member id (with its hold) and yields v, so that `x = ev(id, v)` is an
// assignment whose right-hand side is observed.
func (o *Obs) Ev(id int64, v int64) int64 {
	o.En(id)
	return v
}

// ConcInner is reached through a three-level call CO.In.M3(id).
type ConcInner struct{ o *Obs }

func (c ConcInner) M3(id int64) int64 { c.o.En(id); return id }

// ConcTarget is the injected object CO: methods for method-call members, fields for
// assignments to injected data.
type ConcTarget struct {
	o  *Obs
	In ConcInner
	F1 int64
	F2 int64
	F3 int32
	F4 uint16
}

func (c *ConcTarget) M(id int64) int64  { c.o.En(id); return id }
func (c *ConcTarget) MP(id int64) int64 { c.o.Fl(id); panic("injected method panics on purpose") }

func (o *Obs) NewConcTarget() *ConcTarget { return &ConcTarget{o: o, In: ConcInner{o}} }
