package trace

import (
	"fmt"
	"math/rand"

	"github.com/bilibili/gengine/builder"
	"github.com/bilibili/gengine/context"
	"github.com/bilibili/gengine/engine"
)

// Method names (engine methods; the pool mirrors carry the same names).
const (
	MExecute         = "Execute"
	MExecuteStop     = "ExecuteWithStopTagDirect"
	MConcurrent      = "ExecuteConcurrent"
	MMix             = "ExecuteMixModel"
	MMixStop         = "ExecuteMixModelWithStopTagDirect"
	MSel             = "ExecuteSelectedRules"
	MSelCtl          = "ExecuteSelectedRulesWithControl"
	MSelCtlGiven     = "ExecuteSelectedRulesWithControlAsGivenSortedName"
	MSelCtlStop      = "ExecuteSelectedRulesWithControlAndStopTag"
	MSelCtlStopGiven = "ExecuteSelectedRulesWithControlAndStopTagAsGivenSortedName"
	MSelConcurrent   = "ExecuteSelectedRulesConcurrent"
	MSelMix          = "ExecuteSelectedRulesMixModel"
	MInverse         = "ExecuteInverseMixModel"
	MSelInverse      = "ExecuteSelectedRulesInverseMixModel"
	MNSortMConc      = "ExecuteNSortMConcurrent"
	MNConcMSort      = "ExecuteNConcurrentMSort"
	MNConcMConc      = "ExecuteNConcurrentMConcurrent"
	MSelNSortMConc   = "ExecuteSelectedNSortMConcurrent"
	MSelNConcMSort   = "ExecuteSelectedNConcurrentMSort"
	MSelNConcMConc   = "ExecuteSelectedNConcurrentMConcurrent"
	MDAG             = "ExecuteDAGModel"
	MPoolEM          = "ExecuteRulesWithSpecifiedEM"               // pool only
	MPoolEMMulti     = "ExecuteRulesWithMultiInputWithSpecifiedEM" // pool only
	MPoolEMSel       = "ExecuteSelectedWithSpecifiedEM"            // pool only
)

var EngineMethods = []string{MExecute, MExecuteStop, MConcurrent, MMix, MMixStop, MSel, MSelCtl, MSelCtlGiven, MSelCtlStop,
	MSelCtlStopGiven, MSelConcurrent, MSelMix, MInverse, MSelInverse, MNSortMConc, MNConcMSort, MNConcMConc,
	MSelNSortMConc, MSelNConcMSort, MSelNConcMConc, MDAG}

var PoolOnlyMethods = []string{MPoolEM, MPoolEMMulti, MPoolEMSel}

// Call is one generated engine / pool call.
type Call struct {
	Method string     `json:"method"`
	B      bool       `json:"b,omitempty"` // continue-on-error flag
	Names  []string   `json:"names,omitempty"`
	N      int        `json:"n,omitempty"`
	M      int        `json:"m,omitempty"`
	DAG    [][]string `json:"dag,omitempty"`
	Pool   bool       `json:"pool,omitempty"`
	EM     int        `json:"em,omitempty"` // exec model for the SpecifiedEM pool methods
	// Data is merged into the request's data map (pool) / added to the data context (engine).
	// With "Req"/"Resp" keys the two-object form of ExecuteRulesWithSpecifiedEM is used.
	Data map[string]interface{} `json:"-"`
	// NilStag: the stop-tag entry points get a nil *Stag (API misuse that panics in the caller's
	// goroutine; used by C17: the instance must be handed back on that path too).
	NilStag bool `json:"nil_stag,omitempty"`
	// DupNames: the name list contains a duplicate; only "no unselected rule runs" is decided.
	DupNames bool `json:"dup_names,omitempty"`
}

func (c Call) IsSelected() bool {
	switch c.Method {
	case MSel, MSelCtl, MSelCtlGiven, MSelCtlStop, MSelCtlStopGiven, MSelConcurrent, MSelMix, MSelInverse,
		MSelNSortMConc, MSelNConcMSort, MSelNConcMConc, MPoolEMSel:
		return true
	}
	return false
}

func (c Call) UsesStopTag() bool {
	switch c.Method {
	case MExecuteStop, MMixStop, MSelCtlStop, MSelCtlStopGiven:
		return true
	}
	return false
}

// Target is what calls are made on: a bare engine with its rule builder, or a pool.
type Target struct {
	Obs  *Obs
	Eng2 *engine.Gengine // a second engine executing on the same rule builder (odd calls)
	n    int
	Eng  *engine.Gengine
	RB   *builder.RuleBuilder
	DC   *context.DataContext
	Pool *engine.GenginePool
}

// Three is the value-kind slice used by forRange shapes.
var Three = []int64{7, 8, 9}

// NewEngineTarget compiles text into a fresh builder and engine.
func NewEngineTarget(obs *Obs, text string) (*Target, error) {
	dc := context.NewDataContext()
	for k, v := range obs.Apis() {
		dc.Add(k, v)
	}
	dc.Add("three", Three)
	rb := builder.NewRuleBuilder(dc)
	if err := CompileLocked(func() error { return rb.BuildRuleFromString(text) }); err != nil {
		return nil, err
	}
	return &Target{Obs: obs, Eng: engine.NewGengine(), Eng2: engine.NewGengine(), RB: rb, DC: dc}, nil
}

// NewEngineTargetSplit installs the rule set in several steps: a full build of the first group
// of rules, then incremental builds of the remaining groups (so that the binary-search
// insertion and the copy-on-write merge are on the path of every E2 oracle).
// victimRule is installed with the first group and removed again at the end, so that
// RemoveRules (a fresh container built by filtering and re-sorting) is on the path too.
const victimRule = "rule \"zz-victim\" salience 1 begin st(-77) end\n"

func NewEngineTargetSplit(obs *Obs, groups []string) (*Target, error) {
	t, err := NewEngineTarget(obs, groups[0]+victimRule)
	if err != nil {
		return nil, err
	}
	defer t.RB.RemoveRules([]string{"zz-victim", "never-there"})
	if len(groups[0])%2 == 0 {
		// every other time: a rule of the first group is removed and the very same first text is built
		// again in full - which has to bring the rule back
		for n := range t.RB.Kc.RuleEntities {
			if n != "zz-victim" {
				t.RB.RemoveRules([]string{n})
				break
			}
		}
		if err := CompileLocked(func() error { return t.RB.BuildRuleFromString(groups[0] + victimRule) }); err != nil {
			return nil, err
		}
	}
	for _, g := range groups[1:] {
		g := g
		if err := CompileLocked(func() error { return t.RB.BuildRuleWithIncremental(g) }); err != nil {
			return nil, err
		}
	}
	return t, nil
}

// NewPoolTargetSplit is the pool counterpart: pool construction, then incremental updates.
func NewPoolTargetSplit(obs *Obs, groups []string, min, max int64, em int) (*Target, error) {
	t, err := NewPoolTarget(obs, groups[0]+victimRule, min, max, em)
	if err != nil {
		return nil, err
	}
	defer t.Pool.RemoveRules([]string{"zz-victim", "never-there"})
	for _, g := range groups[1:] {
		g := g
		if err := CompileLocked(func() error { return t.Pool.UpdatePooledRulesIncremental(g) }); err != nil {
			return nil, err
		}
	}
	return t, nil
}

// NewPoolTarget creates a pool of the given size.
func NewPoolTarget(obs *Obs, text string, min, max int64, em int) (*Target, error) {
	apis := obs.Apis()
	apis["three"] = Three
	var p *engine.GenginePool
	err := CompileLocked(func() error {
		var e error
		p, e = engine.NewGenginePool(min, max, em, text, apis)
		return e
	})
	if err != nil {
		return nil, err
	}
	return &Target{Obs: obs, Pool: p}, nil
}

func newPool(min, max int64, em int, text string, apis map[string]interface{}) (*engine.GenginePool, error) {
	return engine.NewGenginePool(min, max, em, text, apis)
}

// StagHolder is injected as stagh; its member S is the stop tag of the call.
type StagHolder struct{ S engine.Stag }

// Outcome is what one call did, as seen from the caller.
type Outcome struct {
	Err      error
	Result   map[string]interface{}
	Panic    interface{}
	Events   []Ev // snapshot at the moment the call returned
	Stag     *engine.Stag
	lg       *Log
	HoldsHit int
}

// Invoke performs the call with a fresh log (holds already installed in lg).
func (t *Target) Invoke(c Call, lg *Log) (out Outcome) {
	if t.Obs != nil {
		t.Obs.Use(lg)
	}
	// the tag handed to the engine is a struct-valued member of an injected object: rules reach it as
	// stag.StopTag (the pointer injected under its own name) or as stagh.S.StopTag (through the holder)
	holder := &StagHolder{}
	stag := &holder.S
	out.Stag = stag
	out.lg = lg
	if c.NilStag {
		stag = nil
	}
	defer func() {
		if p := recover(); p != nil {
			out.Panic = p
			out.Events = lg.Snapshot()
		}
	}()
	if t.Pool != nil {
		data := map[string]interface{}{"stag": stag, "stagh": holder}
		for dk, dv := range c.Data {
			data[dk] = dv
		}
		var e error
		var res map[string]interface{}
		p := t.Pool
		switch c.Method {
		case MExecute:
			e, res = p.Execute(data, c.B)
		case MExecuteStop:
			e, res = p.ExecuteWithStopTagDirect(data, c.B, stag)
		case MConcurrent:
			e, res = p.ExecuteConcurrent(data)
		case MMix:
			e, res = p.ExecuteMixModel(data)
		case MMixStop:
			e, res = p.ExecuteMixModelWithStopTagDirect(data, stag)
		case MSel:
			e, res = p.ExecuteSelectedRules(data, c.Names)
		case MSelCtl:
			e, res = p.ExecuteSelectedRulesWithControl(data, c.B, c.Names)
		case MSelCtlGiven:
			e, res = p.ExecuteSelectedRulesWithControlAsGivenSortedName(data, c.B, c.Names)
		case MSelCtlStop:
			e, res = p.ExecuteSelectedRulesWithControlAndStopTag(data, c.B, stag, c.Names)
		case MSelCtlStopGiven:
			e, res = p.ExecuteSelectedRulesWithControlAndStopTagAsGivenSortedName(data, c.B, stag, c.Names)
		case MSelConcurrent:
			e, res = p.ExecuteSelectedRulesConcurrent(data, c.Names)
		case MSelMix:
			e, res = p.ExecuteSelectedRulesMixModel(data, c.Names)
		case MInverse:
			e, res = p.ExecuteInverseMixModel(data)
		case MSelInverse:
			e, res = p.ExecuteSelectedRulesInverseMixModel(data, c.Names)
		case MNSortMConc:
			e, res = p.ExecuteNSortMConcurrent(c.N, c.M, c.B, data)
		case MNConcMSort:
			e, res = p.ExecuteNConcurrentMSort(c.N, c.M, c.B, data)
		case MNConcMConc:
			e, res = p.ExecuteNConcurrentMConcurrent(c.N, c.M, c.B, data)
		case MSelNSortMConc:
			e, res = p.ExecuteSelectedNSortMConcurrent(c.N, c.M, c.B, c.Names, data)
		case MSelNConcMSort:
			e, res = p.ExecuteSelectedNConcurrentMSort(c.N, c.M, c.B, c.Names, data)
		case MSelNConcMConc:
			e, res = p.ExecuteSelectedNConcurrentMConcurrent(c.N, c.M, c.B, c.Names, data)
		case MDAG:
			e, res = p.ExecuteDAGModel(c.DAG, data)
		case MPoolEM:
			if _, ok := c.Data["\x00no-slots"]; ok {
				// a request that brings nothing at all
				e, res = p.ExecuteRulesWithSpecifiedEM("", nil, "", nil)
			} else if only, ok := c.Data["\x00second-slot-only"]; ok {
				// nothing in the first slot, the request's object in the second
				e, res = p.ExecuteRulesWithSpecifiedEM("", nil, "k3", only)
			} else if req, ok := c.Data["Req"]; ok {
				e, res = p.ExecuteRulesWithSpecifiedEM("Req", req, "Resp", c.Data["Resp"])
			} else if stf, ok := c.Data["st"]; ok {
				// the two slots of this form carry the request's own observers
				e, res = p.ExecuteRulesWithSpecifiedEM("st", stf, "en", c.Data["en"])
			} else {
				e, res = p.ExecuteRulesWithSpecifiedEM("stag", stag, "stagh", holder)
			}
		case MPoolEMMulti:
			e, res = p.ExecuteRulesWithMultiInputWithSpecifiedEM(data)
		case MPoolEMSel:
			e, res = p.ExecuteSelectedWithSpecifiedEM(data, c.Names)
		default:
			panic("unknown pool method " + c.Method)
		}
		out.Err, out.Result = e, res
		out.Events = lg.Snapshot()
		out.HoldsHit = lg.HoldsEntered()
		return
	}
	t.DC.Add("stag", stag)
	t.DC.Add("stagh", holder)
	for dk, dv := range c.Data {
		t.DC.Add(dk, dv)
	}
	g, rb := t.Eng, t.RB
	t.n++
	if t.Eng2 != nil && t.n%3 == 0 {
		g = t.Eng2 // engines keep no rule state: two of them may share one builder
	}
	var e error
	switch c.Method {
	case MExecute:
		e = g.Execute(rb, c.B)
	case MExecuteStop:
		e = g.ExecuteWithStopTagDirect(rb, c.B, stag)
	case MConcurrent:
		e = g.ExecuteConcurrent(rb)
	case MMix:
		e = g.ExecuteMixModel(rb)
	case MMixStop:
		e = g.ExecuteMixModelWithStopTagDirect(rb, stag)
	case MSel:
		e = g.ExecuteSelectedRules(rb, c.Names)
	case MSelCtl:
		e = g.ExecuteSelectedRulesWithControl(rb, c.B, c.Names)
	case MSelCtlGiven:
		e = g.ExecuteSelectedRulesWithControlAsGivenSortedName(rb, c.B, c.Names)
	case MSelCtlStop:
		e = g.ExecuteSelectedRulesWithControlAndStopTag(rb, c.B, stag, c.Names)
	case MSelCtlStopGiven:
		e = g.ExecuteSelectedRulesWithControlAndStopTagAsGivenSortedName(rb, c.B, stag, c.Names)
	case MSelConcurrent:
		e = g.ExecuteSelectedRulesConcurrent(rb, c.Names)
	case MSelMix:
		e = g.ExecuteSelectedRulesMixModel(rb, c.Names)
	case MInverse:
		e = g.ExecuteInverseMixModel(rb)
	case MSelInverse:
		e = g.ExecuteSelectedRulesInverseMixModel(rb, c.Names)
	case MNSortMConc:
		e = g.ExecuteNSortMConcurrent(c.N, c.M, rb, c.B)
	case MNConcMSort:
		e = g.ExecuteNConcurrentMSort(c.N, c.M, rb, c.B)
	case MNConcMConc:
		e = g.ExecuteNConcurrentMConcurrent(c.N, c.M, rb, c.B)
	case MSelNSortMConc:
		e = g.ExecuteSelectedNSortMConcurrent(c.N, c.M, rb, c.B, c.Names)
	case MSelNConcMSort:
		e = g.ExecuteSelectedNConcurrentMSort(c.N, c.M, rb, c.B, c.Names)
	case MSelNConcMConc:
		e = g.ExecuteSelectedNConcurrentMConcurrent(c.N, c.M, rb, c.B, c.Names)
	case MDAG:
		e = g.ExecuteDAGModel(rb, c.DAG)
	default:
		panic("unknown engine method " + c.Method)
	}
	out.Err = e
	out.Result, _ = g.GetRulesResultMap()
	out.Events = lg.Snapshot()
	out.HoldsHit = lg.HoldsEntered()
	return
}

// GenNames produces a name list for the selected variants: random subset in random order,
// sometimes with unknown names at random positions, sometimes empty or all-unknown.
func GenNames(r *rand.Rand, rs *RuleSet, allowUnknown bool) []string {
	all := rs.Names()
	r.Shuffle(len(all), func(i, j int) { all[i], all[j] = all[j], all[i] })
	mode := r.Intn(10)
	switch {
	case mode == 0 && allowUnknown:
		return []string{}
	case mode == 1 && allowUnknown:
		return []string{"no_such_rule_a", "no_such_rule_b"}
	}
	k := 1 + r.Intn(len(all))
	if mode >= 7 {
		k = len(all)
	}
	names := append([]string{}, all[:k]...)
	if allowUnknown && r.Intn(3) == 0 {
		nu := 1 + r.Intn(2)
		for i := 0; i < nu; i++ {
			pos := r.Intn(len(names) + 1)
			unk := fmt.Sprintf("unknown_%d", i)
			if r.Intn(3) == 0 {
				// an unknown name that differs from an existing one only by blanks around it
				cand := []string{" " + all[0], all[0] + "  ", "\t" + all[0]}[r.Intn(3)]
				if rs.ByName(cand) == nil {
					unk = cand
				}
			}
			names = append(names[:pos], append([]string{unk}, names[pos:]...)...)
		}
	}
	return names
}

// GenDAG produces a layering over the rule names with empty layers, unknown names, repeats.
func GenDAG(r *rand.Rand, rs *RuleSet) [][]string {
	if r.Intn(14) == 0 {
		// exactly one layer, and no existing rule in it: everything is skipped, nothing fails
		return [][][]string{{{"ghost_a", "ghost_b"}}, {{}}, {{"ghost_a"}}}[r.Intn(3)]
	}
	nl := r.Intn(6)
	names := rs.Names()
	dag := make([][]string, 0, nl)
	for i := 0; i < nl; i++ {
		w := r.Intn(5)
		layer := []string{}
		for j := 0; j < w; j++ {
			switch r.Intn(8) {
			case 0:
				layer = append(layer, fmt.Sprintf("ghost_%d_%d", i, j))
			default:
				layer = append(layer, names[r.Intn(len(names))])
			}
		}
		dag = append(dag, layer)
	}
	if len(names) >= 12 && r.Intn(3) == 0 {
		// one WIDE layer: every rule (some twice), far more goroutines than cores
		wide := append([]string{}, names...)
		for j := r.Intn(4); j > 0; j-- {
			wide = append(wide, names[r.Intn(len(names))])
		}
		r.Shuffle(len(wide), func(i, j int) { wide[i], wide[j] = wide[j], wide[i] })
		pos := r.Intn(len(dag) + 1)
		dag = append(dag[:pos], append([][]string{wide}, dag[pos:]...)...)
	}
	return dag
}
