package trace

import (
	"fmt"
	"math/rand"
	"strings"
)

// Fault kinds used by E2 rules. All of them go through gengine's ordinary error return or
// through the recover that calls and assignments install; the wider catalog belongs to C09.
const (
	FailNone = iota
	FailDivZero
	FailAddString
	FailMissingVar
	FailCmpType
	FailPanicFn
	FailMissingFn
	FailReadLocal // reads a local that only other rules assign (C15)
	FailCustom    // Rule.Custom holds the faulty statements (C09 catalog)
	FailIndexCond // index out of range inside an if condition: reaches the rule-level recover with a non-error panic value
	FailNonBool   // non-boolean if condition: rule-level recover, error-typed panic value
	FailPanicBig  // injected function panicking with a multi-megabyte message: slow error construction
	FailStoreType // a string stored into an integer field of injected data: the store panics inside reflect
	FailFirstOnly // injected function that panics on its first invocation per call only (DAG: a rule named twice in a layer)
	nFailKinds
)

var failNames = []string{"none", "div0", "int+string", "missing-var", "cmp-type", "panic-fn", "missing-fn", "read-foreign-local", "custom", "index-in-condition", "non-bool-condition", "panic-big-message", "store-of-wrong-type", "panic-first-invocation-only"}

const (
	RetNone = iota
	RetBare
	RetValue
	RetLocal // x = tag ... return x   (C15)
)

// Rule describes one generated rule.
type Rule struct {
	ID           int    `json:"id"`
	Name         string `json:"name"`
	Desc         string `json:"desc,omitempty"`
	HasDesc      bool   `json:"has_desc,omitempty"`
	Sal          int64  `json:"sal"`
	HasSal       bool   `json:"has_sal"`
	Fail         int    `json:"fail,omitempty"`
	FailInReturn bool   `json:"fail_in_return,omitempty"`
	Ret          int    `json:"ret,omitempty"`
	RetVal       int64  `json:"ret_val,omitempty"`
	RetShape     int    `json:"ret_shape,omitempty"` // 0 top level, 1 inside if, 2 inside for+if, 3 inside forRange, 4 if/else-if chain, 5 else-if holding only the return, 6 / 7 else-less chain whose only return sits in a later else-if (7: inside a loop)
	SetStop      bool   `json:"set_stop,omitempty"`
	Version      int64  `json:"version,omitempty"` // unique tag of this compilation of the rule (C07/C08/C16)
	Custom       string `json:"custom,omitempty"`  // FailCustom: statements that must fault (they contain their own trailing en(id) where legal)
}

func (r *Rule) Fails() bool { return r.Fail != FailNone }

// RuleSet is one generated rule text plus its description.
type RuleSet struct {
	Rules []*Rule `json:"rules"`
	Text  string  `json:"text"`
}

func (rs *RuleSet) ByName(n string) *Rule {
	for _, r := range rs.Rules {
		if r.Name == n {
			return r
		}
	}
	return nil
}

func (rs *RuleSet) Names() []string {
	out := make([]string, len(rs.Rules))
	for i, r := range rs.Rules {
		out[i] = r.Name
	}
	return out
}

// GenOpts steers the generator.
type GenOpts struct {
	MinRules, MaxRules int
	FailProb           float64
	RetProb            float64
	StopSetters        int  // number of rules that set the stop tag (placed at random positions)
	WideSal            bool // occasionally use wide saliences
	FailKinds          []int
	Locals             bool // C15: rules share local names
	NoPanicFault       bool
	IDBase             int // first rule id
	NamePrefix         string
	UniqueSal          bool
}

var nameForms = []func(i int, r *rand.Rand) string{
	func(i int, r *rand.Rand) string { return fmt.Sprintf("r%d", i) },
	func(i int, r *rand.Rand) string { return fmt.Sprintf("%d", 100+i) },         // digit-only
	func(i int, r *rand.Rand) string { return fmt.Sprintf("rule-%d.x", i) },      // punctuation
	func(i int, r *rand.Rand) string { return fmt.Sprintf("Rule %d of set", i) }, // spaces
	func(i int, r *rand.Rand) string { return fmt.Sprintf("规则%d", i) },           // non-ASCII
	func(i int, r *rand.Rand) string { return fmt.Sprintf("end_%d", i) },         // keyword-like
	func(i int, r *rand.Rand) string { return fmt.Sprintf("-%d", i+1) },          // looks like a negative number
	func(i int, r *rand.Rand) string { return fmt.Sprintf("pad%d ", i) },         // ends in a blank (part of the name)
	func(i int, r *rand.Rand) string { return fmt.Sprintf("a,b;%d", i) },         // separators of lists inside a name
	func(i int, r *rand.Rand) string { return fmt.Sprintf("R%d", i-1) },          // differs from r<i-1> of the plain form only in case
	func(i int, r *rand.Rand) string { return fmt.Sprintf("r%d", i) },
	func(i int, r *rand.Rand) string { return fmt.Sprintf("r%d", i) },
}

func genSal(r *rand.Rand, wide bool) int64 {
	if wide && r.Intn(12) == 0 {
		// time-stamp-like saliences: far above 2^53 and closer together than float64 can tell apart
		return 1700000000000000000 + int64(r.Intn(5))
	}
	if wide && r.Intn(6) == 0 {
		switch r.Intn(6) {
		case 0:
			return 9223372036854775807
		case 1:
			return -9223372036854775808
		case 2:
			return 1000000007
		case 3:
			return -1000000007
		case 4:
			return 4294967296
		default:
			return -4294967297
		}
	}
	return int64(r.Intn(7) - 3)
}

// Gen generates a rule set.
func Gen(r *rand.Rand, o GenOpts) *RuleSet {
	n := o.MinRules
	if o.MaxRules > o.MinRules {
		n += r.Intn(o.MaxRules - o.MinRules + 1)
	}
	rs := &RuleSet{}
	kinds := o.FailKinds
	if kinds == nil {
		kinds = []int{FailDivZero, FailAddString, FailMissingVar, FailCmpType, FailPanicFn, FailMissingFn, FailIndexCond, FailNonBool, FailDivZero, FailPanicFn, FailStoreType}
		if r.Intn(8) == 0 {
			kinds = append(kinds, FailPanicBig, FailPanicBig, FailPanicBig)
		}
		if o.NoPanicFault {
			kinds = []int{FailDivZero, FailAddString, FailMissingVar, FailCmpType, FailMissingFn}
		}
	}
	usedSal := map[int64]bool{}
	// one wide-salience rule set in eight uses time stamps as saliences: all far above 2^53, a few units apart
	stamps := o.WideSal && !o.UniqueSal && r.Intn(8) == 0
	for i := 0; i < n; i++ {
		ru := &Rule{ID: o.IDBase + i}
		ru.Name = o.NamePrefix + nameForms[r.Intn(len(nameForms))](i, r)
		if r.Intn(3) > 0 {
			ru.HasSal = true
			ru.Sal = genSal(r, o.WideSal)
			if o.UniqueSal {
				for usedSal[ru.Sal] {
					ru.Sal = int64(r.Intn(41) - 20)
				}
			}
		} else if o.UniqueSal {
			ru.HasSal = true
			ru.Sal = int64(r.Intn(41) - 20)
			for usedSal[ru.Sal] {
				ru.Sal = int64(r.Intn(41) - 20)
			}
		}
		if stamps {
			ru.HasSal, ru.Sal = true, 1700000000000000000+int64(r.Intn(12))
		}
		usedSal[ru.Sal] = true
		if r.Intn(3) == 0 {
			ru.HasDesc = true
			ru.Desc = fmt.Sprintf("desc of %d", i)
			if i > 0 && r.Intn(4) == 0 {
				ru.Desc = rs.Rules[r.Intn(i)].Name // a description that reads like (another rule's) name
			}
		}
		if r.Float64() < o.FailProb {
			ru.Fail = kinds[r.Intn(len(kinds))]
		}
		if r.Float64() < o.RetProb {
			ru.Ret = RetBare + r.Intn(2)
			ru.RetVal = int64(1000 + r.Intn(1000000))
			ru.RetShape = r.Intn(8)
			if ru.Fails() && ru.Ret == RetValue && r.Intn(2) == 0 {
				ru.FailInReturn = true
			}
		}
		if o.Locals {
			// every rule uses the same local names xloc / yloc
			switch r.Intn(3) {
			case 0: // writer
				ru.Ret = RetLocal
				ru.RetVal = int64(5000 + ru.ID)
				ru.Fail = FailNone
				ru.FailInReturn = false
			case 1: // reader-before-write: must fail
				ru.Fail = FailReadLocal
				ru.Ret = RetNone
				ru.FailInReturn = false
			}
		}
		rs.Rules = append(rs.Rules, ru)
	}
	for s := 0; s < o.StopSetters && n > 0; s++ {
		rs.Rules[r.Intn(n)].SetStop = true
	}
	rs.Text = rs.Print(r)
	return rs
}

func ws(r *rand.Rand) string {
	switch r.Intn(6) {
	case 0:
		return "\n"
	case 1:
		return "  "
	case 2:
		return "\n\t"
	case 3:
		return " // c\n"
	default:
		return " "
	}
}

// Body renders the statements of one rule.
func (ru *Rule) Body(r *rand.Rand) string {
	var b strings.Builder
	id := ru.ID
	fmt.Fprintf(&b, "st(%d)%s", id, ws(r))
	fmt.Fprintf(&b, "zl = %d%s", id, ws(r)) // every rule uses a local of its own
	// one rule in four first runs a loop that leaves by break / skips by continue: neither is a return - the
	// rest of the rule runs, and the rule has a result entry only if it reaches a return of its own
	switch r.Intn(12) {
	case 0:
		fmt.Fprintf(&b, "for lb = 0; lb < 3; lb += 1 {%sif lb == 1 {%sbreak%s}%s}%s", ws(r), ws(r), ws(r), ws(r), ws(r))
	case 1:
		fmt.Fprintf(&b, "for lb = 0; lb < 2; lb += 1 {%sif lb == 0 {%scontinue%s}%slc = lb%s}%s", ws(r), ws(r), ws(r), ws(r), ws(r), ws(r))
	case 2:
		fmt.Fprintf(&b, "forRange lk := three {%sif lk == 1 {%sbreak%s}%s}%s", ws(r), ws(r), ws(r), ws(r), ws(r))
	}
	if ru.Ret == RetLocal {
		if j := ru.RetVal - 5000; j >= 0 && j < int64(len(LocalSrc)) && r.Intn(2) == 0 {
			fmt.Fprintf(&b, "xloc = lsv[%d]%s", j, ws(r))
		} else {
			fmt.Fprintf(&b, "xloc = %d%s", ru.RetVal, ws(r))
		}
		fmt.Fprintf(&b, "yloc = xloc + 1%s", ws(r))
	}
	if ru.SetStop {
		lit := []string{"true", "true", "TRUE", "True"}[r.Intn(4)] // boolean literals are case-insensitive
		if r.Intn(3) == 0 {
			fmt.Fprintf(&b, "stagh.S.StopTag = %s%s", lit, ws(r))
		} else {
			fmt.Fprintf(&b, "stag.StopTag = %s%s", lit, ws(r))
		}
	}
	if ru.Fail == FailCustom {
		fmt.Fprintf(&b, "fl(%d)%s%s%s", id, ws(r), ru.Custom, ws(r))
		return b.String()
	}
	if ru.Fails() && !ru.FailInReturn {
		b.WriteString(failStmt(ru.Fail, id))
		b.WriteString(ws(r))
		// anything after the fault must not run; if it did, the log shows an 'e'
		fmt.Fprintf(&b, "en(%d)%s", id, ws(r))
		if ru.Ret == RetValue {
			fmt.Fprintf(&b, "return %d%s", ru.RetVal, ws(r))
		} else if ru.Ret == RetBare {
			b.WriteString("return" + ws(r))
		}
		return b.String()
	}
	if ru.Fails() && ru.FailInReturn {
		if r.Intn(3) == 0 {
			// the returned value cannot be handed out at all (an unexported field read through reflection): the
			// rule fails at its return - it has no result entry
			fmt.Fprintf(&b, "zq9 = fl(%d)%sreturn hid.h%s", id, ws(r), ws(r))
			return b.String()
		}
		fmt.Fprintf(&b, "return 1 / fl(%d)%s", id, ws(r))
		return b.String()
	}
	end := fmt.Sprintf("en(%d)", id)
	switch ru.Ret {
	case RetNone:
		b.WriteString(end + ws(r))
	case RetLocal:
		b.WriteString(end + ws(r) + "return xloc" + ws(r))
	default:
		ret := "return"
		if ru.Ret == RetValue {
			ret = fmt.Sprintf("return %d", ru.RetVal)
		}
		switch ru.RetShape {
		case 0:
			b.WriteString(end + ws(r) + ret + ws(r))
		case 1:
			fmt.Fprintf(&b, "if 1 < 2 {%s%s%s%s%s}%s", ws(r), end, ws(r), ret, ws(r), ws(r))
		case 2:
			fmt.Fprintf(&b, "for i = 0; i < 3; i += 1 {%sif i == 1 {%s%s%s%s%s}%s}%s", ws(r), ws(r), end, ws(r), ret, ws(r), ws(r), ws(r))
		case 3:
			fmt.Fprintf(&b, "forRange k := three {%sif k == 2 {%s%s%s%s%s}%s}%s", ws(r), ws(r), end, ws(r), ret, ws(r), ws(r), ws(r))
		case 6:
			// an if without else whose only return sits in its SECOND else-if
			fmt.Fprintf(&b, "if 2 < 1 {%sst(-1)%s} else if 3 < 1 {%sst(-3)%s} else if 1 == 1 {%s%s%s%s%s}%s", ws(r), ws(r), ws(r), ws(r), ws(r), end, ws(r), ret, ws(r), ws(r))
		case 7:
			// ... in its third else-if, inside a loop
			fmt.Fprintf(&b, "for i = 0; i < 3; i += 1 {%sif i == 7 {%sst(-1)%s} else if i == 8 {%sst(-3)%s} else if i == 9 {%sst(-4)%s} else if i == 1 {%s%s%s%s%s}%s}%s", ws(r), ws(r), ws(r), ws(r), ws(r), ws(r), ws(r), ws(r), end, ws(r), ret, ws(r), ws(r), ws(r))
		case 5:
			// the taken else-if branch holds NOTHING BUT the return
			fmt.Fprintf(&b, "%s%sif 2 < 1 {%sst(-1)%s} else if 1 == 1 {%s%s%s} else {%sst(-2)%s}%s", end, ws(r), ws(r), ws(r), ws(r), ret, ws(r), ws(r), ws(r), ws(r))
		default:
			fmt.Fprintf(&b, "if 2 < 1 {%sst(-1)%s} else if 1 == 1 {%s%s%s%s%s} else {%sst(-2)%s}%s", ws(r), ws(r), ws(r), end, ws(r), ret, ws(r), ws(r), ws(r), ws(r))
		}
		// a statement after a nested return must have no effect: it would log a second 's'
		if ru.RetShape != 0 {
			fmt.Fprintf(&b, "st(%d)%s", id, ws(r))
		}
	}
	return b.String()
}

func failStmt(kind, id int) string {
	switch kind {
	case FailDivZero:
		return fmt.Sprintf("zz = 1 / fl(%d)", id)
	case FailAddString:
		return fmt.Sprintf("zz = fl(%d) + \"s\"", id)
	case FailMissingVar:
		return fmt.Sprintf("zz = fl(%d) + nosuchvar", id)
	case FailCmpType:
		return fmt.Sprintf("if fl(%d) > \"a\" { zz = 1 }", id)
	case FailPanicFn:
		return fmt.Sprintf("pn(%d)", id)
	case FailMissingFn:
		return fmt.Sprintf("nosuchfn(fl(%d))", id)
	case FailReadLocal:
		return fmt.Sprintf("fl(%d) zz = xloc + yloc", id)
	case FailIndexCond:
		return fmt.Sprintf("ixx = fl(%d) + 9 if three[ixx] > 0 { zz = 1 }", id)
	case FailNonBool:
		return fmt.Sprintf("if fl(%d) { zz = 1 }", id)
	case FailPanicBig:
		return fmt.Sprintf("pnb(%d)", id)
	case FailStoreType:
		return fmt.Sprintf("tgt.F = fl(%d) + 1 tgt.F = \"s\"", id)
	case FailFirstOnly:
		return fmt.Sprintf("pn1(%d)", id)
	}
	return ""
}

// Header renders `rule "name" "desc" salience N`.
func (ru *Rule) Header(r *rand.Rand) string {
	var b strings.Builder
	kw := []string{"rule", "RULE", "Rule"}[r.Intn(3)]
	fmt.Fprintf(&b, "%s \"%s\"", kw, ru.Name)
	if ru.HasDesc {
		fmt.Fprintf(&b, " \"%s\"", ru.Desc)
	}
	if ru.HasSal {
		if ru.Sal > 0 && r.Intn(6) == 0 {
			fmt.Fprintf(&b, " %s 00%d", []string{"salience", "SALIENCE"}[r.Intn(2)], ru.Sal) // leading zeros: still decimal
		} else {
			fmt.Fprintf(&b, " %s %d", []string{"salience", "SALIENCE"}[r.Intn(2)], ru.Sal)
		}
	}
	return b.String()
}

func (ru *Rule) Text(r *rand.Rand) string {
	return fmt.Sprintf("%s%sbegin%s%send\n", ru.Header(r), ws(r), ws(r), ru.Body(r))
}

// Groups renders the set as n texts (n>=1) over a random partition of the rules.
func (rs *RuleSet) Groups(r *rand.Rand, n int) []string {
	idx := r.Perm(len(rs.Rules))
	if n > len(idx) {
		n = len(idx)
	}
	out := make([]string, n)
	for j, i := range idx {
		g := j % n
		if j >= n {
			g = r.Intn(n)
		}
		out[g] += rs.Rules[i].Text(r)
	}
	return out
}

// Print renders the whole set; rule order in the text is shuffled so that text order and
// priority order are unrelated.
func (rs *RuleSet) Print(r *rand.Rand) string {
	idx := r.Perm(len(rs.Rules))
	var b strings.Builder
	for _, i := range idx {
		b.WriteString(rs.Rules[i].Text(r))
		if r.Intn(3) == 0 {
			b.WriteString("\n// between rules\n")
		}
	}
	return b.String()
}
