package cfuzz

import (
	"fmt"
	"strings"
)

// ClassDeep: valid one-rule texts that nest or chain one construct deeper than the ordinary
// generator does. The depths are bounded so that one compile stays well under 2 s: compile time
// grows by about x3.2 per level of function-call nesting (depth 9: 7.4 s, depth 10: 26 s) and
// about cubically with parenthesis nesting and with the number of terms of a sum. That growth is
// a performance observation (the call does return), not something C10 decides with its watchdog.
const ClassDeep = "deep"

// Bounds of the deep shapes.
const (
	MaxCallNesting  = 6
	MaxParenNesting = 120
	MaxSumTerms     = 40
)

// DeepEvery / DeepAt: the cases with Index % DeepEvery == DeepAt carry a deep text, so that a
// quick run contains exactly three of them, in three different batches.
const (
	DeepEvery = 1001
	DeepAt    = 333
)

// nestedText renders one rule around a nested / chained construct.
func nestedText(shape, n int) (string, string) {
	switch shape {
	case 0: // function calls nested n deep
		return `rule "nest" begin ` + strings.Repeat("f(", n) + "1" + strings.Repeat(")", n) + " end", fmt.Sprintf("function calls nested %d deep", n)
	case 1: // parentheses nested n deep
		return `rule "nest" begin x = ` + strings.Repeat("(", n) + "1" + strings.Repeat(")", n) + " end", fmt.Sprintf("parentheses nested %d deep", n)
	case 2: // a sum of n+1 terms
		return `rule "nest" begin x = 1` + strings.Repeat(" + 1", n) + " end", fmt.Sprintf("sum of %d terms", n+1)
	case 3: // method calls nested n deep inside a condition
		return `rule "nest" begin if ` + strings.Repeat("O.M(", n) + "y" + strings.Repeat(")", n) + " { x = 1 } end", fmt.Sprintf("method calls nested %d deep in a condition", n)
	case 4: // if statements nested n deep
		return `rule "nest" begin ` + strings.Repeat("if a { ", n) + strings.Repeat("} ", n) + "end", fmt.Sprintf("if statements nested %d deep", n)
	default: // a chain of n logical operators
		return `rule "nest" begin x = a` + strings.Repeat(" && a", n) + " end", fmt.Sprintf("chain of %d logical operators", n)
	}
}

// Nested generates a moderately nested valid text (part of the ordinary valid class).
func (g *Gen) Nested() *Text {
	r := g.R
	shape := r.Intn(6)
	var n int
	switch shape {
	case 0, 3:
		n = 2 + r.Intn(4) // calls: 2..5
	case 1:
		n = 2 + r.Intn(30)
	case 4:
		n = 2 + r.Intn(60)
	default:
		n = 2 + r.Intn(30)
	}
	s, how := nestedText(shape, n)
	return &Text{Class: ClassValid, S: s, How: how, NamesKnown: true, Names: []string{"nest"}}
}

// Deep generates the deep text of slot number slot (slot = Index / DeepEvery).
func (g *Gen) Deep(slot int) *Text {
	r := g.R
	var s, how string
	switch slot % 3 {
	case 0:
		s, how = nestedText(0, MaxCallNesting-r.Intn(2)) // 5..6 nested calls
	case 1:
		s, how = nestedText(1, MaxParenNesting-r.Intn(41)) // 80..120 nested parentheses
	default:
		s, how = nestedText(2, MaxSumTerms-1-r.Intn(15)) // 25..40 terms
	}
	if len(s) > MaxText {
		s = s[:MaxText]
	}
	return &Text{Class: ClassDeep, S: s, How: how, NamesKnown: true, Names: []string{"nest"}}
}
