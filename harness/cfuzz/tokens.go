// Package cfuzz is engine E5: the compile fuzzer. It generates rule texts (valid, token-level
// mutants of valid texts, raw bytes), submits every text to the five compile entry points of
// gengine from a known state and checks totality, all-or-nothing and agreement (property C10).
package cfuzz

import (
	"strings"
)

// Keywords of the DSL (matched case-insensitively by the lexer).
var Keywords = []string{"rule", "begin", "end", "salience", "if", "else", "for", "forRange", "break", "continue",
	"return", "conc", "true", "false", "nil", "null"}

var keywordSet = func() map[string]bool {
	m := map[string]bool{}
	for _, k := range Keywords {
		m[strings.ToLower(k)] = true
	}
	return m
}()

// IsKeyword reports whether the lexer would turn s into a keyword token.
func IsKeyword(s string) bool { return keywordSet[strings.ToLower(s)] }

// Token classes of the rough tokeniser.
const (
	TkWord    = 'w' // identifier, dotted name
	TkKeyword = 'k'
	TkNumber  = 'n'
	TkString  = 's'
	TkOp      = 'o' // operator or bracket
	TkAt      = 'a' // @name ...
	TkComment = 'c' // // ... \n (the newline belongs to the token)
	TkOther   = 'g' // anything else: one byte the lexer does not know
)

// Token is one rough token of a text.
type Token struct {
	Class byte
	Text  string
}

var twoCharOps = map[string]bool{"==": true, "!=": true, ">=": true, "<=": true, ":=": true, "+=": true, "-=": true,
	"*=": true, "/=": true, "&&": true, "||": true}

func isLetter(c byte) bool { return c >= 'a' && c <= 'z' || c >= 'A' && c <= 'Z' || c == '_' }
func isDigit(c byte) bool  { return c >= '0' && c <= '9' }
func isSpace(c byte) bool  { return c == ' ' || c == '\t' || c == '\n' || c == '\r' }

// Tokenise splits arbitrary bytes roughly the way the gengine lexer would: words (with dots),
// numbers, string literals, comments, operators/brackets; white space is dropped. It never fails.
func Tokenise(s string) []Token {
	var out []Token
	i, n := 0, len(s)
	for i < n {
		c := s[i]
		switch {
		case isSpace(c):
			i++
		case c == '/' && i+1 < n && s[i+1] == '/':
			j := i + 2
			for j < n && s[j] != '\n' {
				j++
			}
			if j < n {
				j++ // the newline
			}
			out = append(out, Token{TkComment, s[i:j]})
			i = j
		case isLetter(c):
			j := i + 1
			for j < n && (isLetter(s[j]) || isDigit(s[j]) || (s[j] == '.' && j+1 < n && isLetter(s[j+1]))) {
				j++
			}
			w := s[i:j]
			cl := byte(TkWord)
			if IsKeyword(w) {
				cl = TkKeyword
			}
			out = append(out, Token{cl, w})
			i = j
		case isDigit(c) || (c == '.' && i+1 < n && isDigit(s[i+1])):
			j := i
			for j < n && (isDigit(s[j]) || s[j] == '.') {
				j++
			}
			if j < n && (s[j] == 'e' || s[j] == 'E') {
				k := j + 1
				if k < n && s[k] == '-' {
					k++
				}
				if k < n && isDigit(s[k]) {
					for k < n && isDigit(s[k]) {
						k++
					}
					j = k
				}
			}
			out = append(out, Token{TkNumber, s[i:j]})
			i = j
		case c == '"':
			j := i + 1
			for j < n && s[j] != '"' {
				if s[j] == '\\' && j+1 < n {
					j++
				}
				j++
			}
			if j < n {
				j++ // closing quote
			}
			out = append(out, Token{TkString, s[i:j]})
			i = j
		case c == '@':
			j := i + 1
			for j < n && isLetter(s[j]) {
				j++
			}
			out = append(out, Token{TkAt, s[i:j]})
			i = j
		case strings.IndexByte("+-*/=<>!:;,(){}[].&|", c) >= 0:
			if i+1 < n && twoCharOps[s[i:i+2]] {
				out = append(out, Token{TkOp, s[i : i+2]})
				i += 2
			} else {
				out = append(out, Token{TkOp, s[i : i+1]})
				i++
			}
		default:
			out = append(out, Token{TkOther, s[i : i+1]})
			i++
		}
	}
	return out
}

// Join renders tokens back into a text; a comment token already ends its line.
func Join(ts []Token) string {
	var b strings.Builder
	for i, t := range ts {
		if i > 0 && !strings.HasSuffix(ts[i-1].Text, "\n") {
			b.WriteByte(' ')
		}
		b.WriteString(t.Text)
	}
	return b.String()
}

// Signature is a coarse structural signature of a text: the sequence of token classes, keywords
// and operators spelled out, everything else reduced to its class letter.
func Signature(s string) string {
	ts := Tokenise(s)
	var b strings.Builder
	for _, t := range ts {
		switch t.Class {
		case TkKeyword:
			b.WriteString(strings.ToLower(t.Text))
			b.WriteByte(' ')
		case TkOp, TkAt:
			b.WriteString(t.Text)
		default:
			b.WriteByte(t.Class)
		}
	}
	return b.String()
}

// HasUnlexableByte reports whether the text contains, outside string literals and comments, a
// byte for which the grammar has no token (only informational: goes into violation details).
func HasUnlexableByte(s string) bool {
	for _, t := range Tokenise(s) {
		if t.Class == TkOther {
			return true
		}
		if t.Class == TkAt && t.Text != "@name" && t.Text != "@id" && t.Text != "@desc" && t.Text != "@sal" {
			return true
		}
	}
	return false
}
