package cfuzz

import (
	"fmt"
	"math"
	"math/rand"
	"sort"
	"strings"
)

// MaxText is the bound on the length of a submitted text.
const MaxText = 2048

// RRule is the model of one RUNNABLE rule: its body calls the observer tr(Version) and
// returns Version, so that an installed set can be observed by executing the sort model.
type RRule struct {
	Name    string `json:"name"`
	Sal     int64  `json:"sal"`
	Version int64  `json:"version"`
}

// Known is the pre-loaded rule set of a case: three runnable rules with distinct saliences.
type Known struct {
	Rules []RRule
	Text  string
}

func (kn *Known) Names() []string {
	out := make([]string, len(kn.Rules))
	for i, r := range kn.Rules {
		out[i] = r.Name
	}
	return out
}

// Text classes.
const (
	ClassValid   = "valid"
	ClassMutant  = "mutant"
	ClassRaw     = "raw"
	ClassDupName = "dupname"
)

// Text is one generated input.
type Text struct {
	Class string
	S     string
	How   string // how it was produced (mutation operators, raw mode ...)
	// Runnable: every rule of the text is a model rule, Rules lists them in text order.
	Runnable bool
	Rules    []RRule
	// NamesKnown: Names is exactly the list of rule names the text defines (valid and dupname texts).
	NamesKnown bool
	Names      []string
	// DupName: the text is valid except that one rule name occurs twice.
	DupName bool
}

var knownNamePool = []string{"kn_alpha", "kn_beta", "kn_gamma", "kn_delta", "kn eps", "kn-zeta.1", "规则kn", "7001"}

// salience pool: distinct values are dealt from one permutation per case
func salPool(r *rand.Rand) []int64 {
	vals := []int64{}
	for v := int64(-25); v <= 25; v++ {
		vals = append(vals, v)
	}
	vals = append(vals, 1000000007, -1000000007, 4294967296, -4294967297, math.MaxInt64, math.MinInt64, math.MaxInt64-1, math.MinInt64+1)
	r.Shuffle(len(vals), func(i, j int) { vals[i], vals[j] = vals[j], vals[i] })
	return vals
}

// Gen carries the per-case generator state (salience pool, version counter).
type Gen struct {
	R     *rand.Rand
	Known *Known
	sals  []int64
	ver   int64
	seq   int
}

func NewGen(r *rand.Rand) *Gen {
	g := &Gen{R: r, ver: 200}
	g.sals = salPool(r)
	names := append([]string{}, knownNamePool...)
	r.Shuffle(len(names), func(i, j int) { names[i], names[j] = names[j], names[i] })
	kn := &Known{}
	for i := 0; i < 3; i++ {
		kn.Rules = append(kn.Rules, RRule{Name: names[i], Sal: g.nextSal(), Version: int64(101 + i)})
	}
	var b strings.Builder
	for _, ru := range kn.Rules { // text order unrelated to priority order
		b.WriteString(g.runnableRuleText(ru, false))
	}
	kn.Text = b.String()
	g.Known = kn
	return g
}

func (g *Gen) nextSal() int64 {
	s := g.sals[0]
	g.sals = g.sals[1:]
	return s
}

func (g *Gen) nextVer() int64 { g.ver++; return g.ver }

func (g *Gen) ws() string {
	switch g.R.Intn(8) {
	case 0:
		return "\n"
	case 1:
		return "  "
	case 2:
		return "\n\t"
	case 3:
		return " // c\n"
	case 4:
		return "\r\n"
	default:
		return " "
	}
}

func pick(r *rand.Rand, xs ...string) string { return xs[r.Intn(len(xs))] }

func (g *Gen) header(name string, sal int64, forceSal bool) string {
	r := g.R
	var b strings.Builder
	b.WriteString(pick(r, "rule", "rule", "RULE", "Rule", "rUlE"))
	b.WriteString(" \"" + name + "\"")
	if r.Intn(3) == 0 {
		b.WriteString(pick(r, " \"a description\"", " \"desc: x > 1 // not a comment\"", " \"描述\""))
	}
	if forceSal || sal != 0 || r.Intn(2) == 0 {
		fmt.Fprintf(&b, " %s %d", pick(r, "salience", "salience", "SALIENCE", "Salience"), sal)
	}
	return b.String()
}

// safe statements: run without error on an empty data context (locals only)
func (g *Gen) safeStmt() string {
	r := g.R
	switch r.Intn(7) {
	case 0:
		return "x = 1 + 2"
	case 1:
		return "x = 5 if x > 2 { y = 1 } else { y = 2 }"
	case 2:
		return "for i = 0; i < 2; i += 1 { z = i }"
	case 3:
		return "// a comment line\n"
	case 4:
		return "a = 2 * 3 - 1 b = a / 5"
	case 5:
		return "s = \"str\" t = 1.5 u = -3 v = true"
	default:
		return "n = 0 if n == 1 { n = 2 } else if n == 0 { n = 3 } else { n = 4 }"
	}
}

func (g *Gen) runnableRuleText(ru RRule, rich bool) string {
	var b strings.Builder
	b.WriteString(g.header(ru.Name, ru.Sal, true))
	b.WriteString(g.ws() + pick(g.R, "begin", "BEGIN", "Begin") + g.ws())
	fmt.Fprintf(&b, "tr(%d)%s", ru.Version, g.ws())
	if rich {
		for n := g.R.Intn(3); n > 0; n-- {
			b.WriteString(g.safeStmt() + g.ws())
		}
	}
	fmt.Fprintf(&b, "return %d%s%s\n", ru.Version, g.ws(), pick(g.R, "end", "END", "End"))
	return b.String()
}

// ---------- rich (compile-only) valid rules ----------

var simpleNames = []string{"x", "y", "cnt", "total_1", "_tmp", "Flag", "idx", "aB9"}
var dottedNames = []string{"O.F", "Req.Age", "resp.Out", "A.B.C", "stag.StopTag"}
var funcNames = []string{"f", "println", "isOk", "g_2"}
var methNames = []string{"O.M", "Req.Get", "A.B.Do"}
var strLits = []string{`"a"`, `"k"`, `""`, `"with space"`, `"esc \" q"`, `"// no comment"`, `"中文"`, `"a""b"`}
var intLits = []string{"0", "1", "2", "42", "-3", "-1", "9223372036854775807", "007"}
var realLits = []string{"1.5", ".5", "1e5", "1.5e-3", "-2.25", "3.e2", "0.0"}

func (g *Gen) variable() string {
	if g.R.Intn(3) == 0 {
		return pick(g.R, dottedNames...)
	}
	return pick(g.R, simpleNames...)
}

func (g *Gen) mapVar() string {
	v := g.variable()
	switch g.R.Intn(4) {
	case 0:
		return v + "[" + pick(g.R, "0", "1", "-1", "12") + "]"
	case 1:
		return v + "[" + pick(g.R, simpleNames...) + "]"
	default:
		return v + "[" + pick(g.R, `"k"`, `"a b"`, `"键"`) + "]"
	}
}

func (g *Gen) constant() string {
	r := g.R
	switch r.Intn(6) {
	case 0:
		return pick(r, "true", "false", "TRUE", "False")
	case 1:
		return pick(r, realLits...)
	case 2:
		return pick(r, strLits...)
	case 3:
		return pick(r, "@name", "@id", "@desc", "@sal")
	default:
		return pick(r, intLits...)
	}
}

func (g *Gen) call(d int) string {
	r := g.R
	name := pick(r, funcNames...)
	if r.Intn(3) == 0 {
		name = pick(r, methNames...)
	}
	n := r.Intn(4)
	args := make([]string, n)
	for i := range args {
		switch r.Intn(5) {
		case 0:
			args[i] = g.expr(d + 1)
		case 1:
			args[i] = g.variable()
		default:
			args[i] = g.atom(d + 1)
		}
	}
	sep := pick(r, ",", ", ", " , ")
	return name + "(" + strings.Join(args, sep) + ")"
}

func (g *Gen) atom(d int) string {
	r := g.R
	switch r.Intn(7) {
	case 0:
		if d < 3 {
			return g.call(d)
		}
		return g.constant()
	case 1:
		return g.mapVar()
	case 2, 3:
		return g.variable()
	default:
		return g.constant()
	}
}

func (g *Gen) math(d int) string {
	r := g.R
	if d >= 3 {
		return g.atom(d)
	}
	switch r.Intn(5) {
	case 0:
		return g.math(d+1) + " " + pick(r, "+", "-", "*", "/") + " " + g.math(d+1)
	case 1:
		return "(" + g.math(d+1) + ")"
	case 2:
		return g.atom(d) + pick(r, " + ", " * ", "-", "/") + g.atom(d)
	default:
		return g.atom(d)
	}
}

func (g *Gen) expr(d int) string {
	r := g.R
	if d >= 3 {
		return g.atom(d)
	}
	switch r.Intn(7) {
	case 0:
		return g.math(d+1) + " " + pick(r, "==", "!=", ">", "<", ">=", "<=") + " " + g.math(d+1)
	case 1:
		return g.expr(d+1) + " " + pick(r, "&&", "||") + " " + g.expr(d+1)
	case 2:
		return "!" + g.atom(d)
	case 3:
		return pick(r, "", "!") + "(" + g.expr(d+1) + ")"
	case 4:
		return g.math(d + 1)
	default:
		return g.atom(d)
	}
}

func (g *Gen) assignment() string {
	r := g.R
	lhs := g.variable()
	if r.Intn(4) == 0 {
		lhs = g.mapVar()
	}
	op := pick(r, "=", "=", ":=", "+=", "-=", "*=", "/=")
	rhs := g.math(1)
	if r.Intn(3) == 0 {
		rhs = g.expr(1)
	}
	return lhs + " " + op + " " + rhs
}

func (g *Gen) stmts(d int, inLoop bool) string {
	var b strings.Builder
	for n := g.R.Intn(4); n > 0; n-- {
		b.WriteString(g.stmt(d, inLoop) + g.ws())
	}
	if g.R.Intn(5) == 0 {
		b.WriteString(pick(g.R, "return", "return "+g.expr(1)) + g.ws())
	}
	return b.String()
}

func (g *Gen) stmt(d int, inLoop bool) string {
	r := g.R
	c := r.Intn(11)
	if d >= 2 && c >= 5 {
		c = r.Intn(5)
	}
	switch c {
	case 0, 1:
		return g.assignment()
	case 2, 3:
		return g.call(1)
	case 4:
		if inLoop {
			return pick(r, "break", "continue", "BREAK")
		}
		return g.assignment()
	case 5, 6:
		s := "if " + g.expr(0) + " {" + g.ws() + g.stmts(d+1, inLoop) + "}"
		for n := r.Intn(3); n > 0; n-- {
			s += " else if " + g.expr(0) + " {" + g.ws() + g.stmts(d+1, inLoop) + "}"
		}
		if r.Intn(2) == 0 {
			s += pick(r, " else", " ELSE") + " {" + g.ws() + g.stmts(d+1, inLoop) + "}"
		}
		return s
	case 7:
		return "for " + pick(r, "i = 0", "i := 1", "O.F = x") + "; " + g.expr(1) + "; " + pick(r, "i += 1", "i = i + 2", "i -= 1") +
			" {" + g.ws() + g.stmts(d+1, true) + "}"
	case 8:
		return pick(r, "forRange", "forrange", "FORRANGE") + " " + pick(r, "k", "idx") + " := " + g.variable() + " {" + g.ws() + g.stmts(d+1, true) + "}"
	case 9:
		var b strings.Builder
		b.WriteString(pick(r, "conc", "CONC") + " {" + g.ws())
		for n := r.Intn(4); n > 0; n-- {
			if r.Intn(2) == 0 {
				b.WriteString(g.assignment())
			} else {
				b.WriteString(g.call(1))
			}
			b.WriteString(g.ws())
		}
		b.WriteString("}")
		return b.String()
	default:
		return g.call(1)
	}
}

func (g *Gen) richRuleText(name string, sal int64) string {
	var b strings.Builder
	b.WriteString(g.header(name, sal, false))
	b.WriteString(g.ws() + pick(g.R, "begin", "BEGIN") + g.ws())
	for n := g.R.Intn(5); n > 0; n-- {
		b.WriteString(g.stmt(0, false) + g.ws())
	}
	if g.R.Intn(2) == 0 {
		b.WriteString(pick(g.R, "return", "return "+g.expr(0), "RETURN "+g.constant()) + g.ws())
	}
	b.WriteString(pick(g.R, "end", "END") + "\n")
	return b.String()
}

// validParts generates a valid text as a list of rule texts. runnable selects model rules.
type part struct {
	name string
	text string
	rr   *RRule
}

func (g *Gen) freshName() string {
	g.seq++
	forms := []string{"r%d", "r%d", "rule-%d.x", "Rule %d of T", "新规则%d", "end_%d", "-%d", "%d"}
	return fmt.Sprintf(forms[g.R.Intn(len(forms))], g.seq)
}

func (g *Gen) validParts(runnable bool, maxRules int) []part {
	r := g.R
	n := 1 + r.Intn(maxRules)
	var parts []part
	used := map[string]bool{}
	total := 0
	for i := 0; i < n; i++ {
		name := g.freshName()
		sal := g.nextSal()
		// sometimes redefine a rule of the known set (same or different salience)
		if r.Intn(4) == 0 {
			kr := g.Known.Rules[r.Intn(len(g.Known.Rules))]
			if !used[kr.Name] {
				name = kr.Name
				if r.Intn(2) == 0 {
					sal = kr.Sal
				}
			}
		}
		if used[name] {
			continue
		}
		var p part
		if runnable {
			rr := RRule{Name: name, Sal: sal, Version: g.nextVer()}
			p = part{name: name, text: g.runnableRuleText(rr, true), rr: &rr}
		} else {
			if r.Intn(3) == 0 {
				sal = 0
			}
			p = part{name: name, text: g.richRuleText(name, sal)}
		}
		if total+len(p.text) > MaxText-200 && len(parts) > 0 {
			break
		}
		if len(p.text) > MaxText-200 {
			// a single oversized rule: replace it by a trivial one
			p.text = g.header(name, sal, false) + " begin end\n"
			if runnable {
				p.text = g.runnableRuleText(*p.rr, false)
			}
		}
		used[name] = true
		total += len(p.text)
		parts = append(parts, p)
	}
	return parts
}

func (g *Gen) assemble(parts []part) string {
	var b strings.Builder
	if g.R.Intn(6) == 0 {
		b.WriteString("// leading comment\n")
	}
	for _, p := range parts {
		b.WriteString(p.text)
		if g.R.Intn(4) == 0 {
			b.WriteString("\n// between rules\n")
		}
	}
	return b.String()
}

func textOf(class string, parts []part, s string, runnable bool) *Text {
	t := &Text{Class: class, S: s, Runnable: runnable, NamesKnown: true}
	for _, p := range parts {
		t.Names = append(t.Names, p.name)
		if runnable {
			t.Rules = append(t.Rules, *p.rr)
		}
	}
	return t
}

// Valid generates a valid text (half of them runnable, a few moderately nested).
func (g *Gen) Valid() *Text {
	return g.valid(true)
}

func (g *Gen) valid(allowNested bool) *Text {
	if allowNested && g.R.Intn(12) == 0 {
		return g.Nested()
	}
	runnable := g.R.Intn(2) == 0
	parts := g.validParts(runnable, 4)
	t := textOf(ClassValid, parts, g.assemble(parts), runnable)
	t.How = "rich"
	if runnable {
		t.How = "runnable"
	}
	return t
}

// DupName generates a valid text in which one rule name occurs twice.
func (g *Gen) DupName() *Text {
	r := g.R
	runnable := r.Intn(2) == 0
	parts := g.validParts(runnable, 3)
	i := r.Intn(len(parts))
	dup := parts[i]
	how := ""
	switch r.Intn(3) {
	case 0: // exact duplicate right after the original
		how = "exact duplicate, adjacent"
		parts = append(parts[:i+1], append([]part{dup}, parts[i+1:]...)...)
	case 1: // exact duplicate at the other end of the text
		how = "exact duplicate, separated by other rules"
		if i == 0 {
			parts = append(parts, dup)
		} else {
			parts = append([]part{dup}, parts...)
		}
	default: // same name, different body and salience, random position
		how = "same name, different body"
		var p part
		if runnable {
			rr := RRule{Name: dup.name, Sal: g.nextSal(), Version: g.nextVer()}
			p = part{name: dup.name, text: g.runnableRuleText(rr, true), rr: &rr}
		} else {
			p = part{name: dup.name, text: g.richRuleText(dup.name, g.nextSal())}
		}
		if q := "\"" + dup.name + "\""; r.Intn(2) == 0 && strings.Count(p.text, q) >= 1 {
			// the same name SPELLED differently: doubled quotes at the ends of the literal are stripped with the
			// delimiters, so this is still the name of the other rule
			how = "same name spelled with doubled quotes at an end of the literal"
			alt := []string{"\"\"\"" + dup.name + "\"", "\"" + dup.name + "\"\"\""}[r.Intn(2)]
			p.text = strings.Replace(p.text, q, alt, 1)
		}
		pos := r.Intn(len(parts) + 1)
		parts = append(parts[:pos], append([]part{p}, parts[pos:]...)...)
	}
	s := g.assemble(parts)
	t := textOf(ClassDupName, parts, s, false)
	t.DupName = true
	t.How = how
	if len(s) > MaxText {
		// cannot happen with the size budget of validParts (3 rules); keep the bound anyway
		t.S = s[:MaxText]
		t.DupName = false
		t.NamesKnown = false
		t.Class = ClassMutant
		t.How = "oversized dupname text truncated"
	}
	return t
}

// ---------- mutants ----------

var opTokens = []string{"+", "-", "*", "/", "=", "==", "!=", ">", "<", ">=", "<=", ":=", "+=", "-=", "*=", "/=", "&&", "||", "!", ";", ",", "."}
var bracketTokens = []string{"(", ")", "{", "}", "[", "]"}
var garbageTokens = []string{"#", "$", "~", "^", "%", "`", "?", "\\", "'", "@", "@nam", "@names", "\"", "\x00", "\xff", "\xc3\x28", "\xef\xbb\xbf",
	"&", "|", ":", "..", "1.2.3", "1e", "0x1F", "\"unterminated", "/*", "*/", "//", " ", " ", "é", "名"}

func (g *Gen) randomToken() Token {
	r := g.R
	switch r.Intn(8) {
	case 0, 1:
		return Token{TkKeyword, pick(r, Keywords...)}
	case 2:
		return Token{TkOp, pick(r, bracketTokens...)}
	case 3:
		return Token{TkOp, pick(r, opTokens...)}
	case 4, 5:
		return Token{TkOther, pick(r, garbageTokens...)}
	case 6:
		return Token{TkWord, pick(r, append(append([]string{}, simpleNames...), dottedNames...)...)}
	default:
		return Token{TkNumber, pick(r, append(append([]string{}, intLits...), realLits...)...)}
	}
}

// Mutant derives a near-valid text from one or two valid texts by token-level mutation.
func (g *Gen) Mutant() *Text {
	r := g.R
	base := g.valid(false)
	ts := Tokenise(base.S)
	var how []string
	nm := 1 + r.Intn(3)
	for m := 0; m < nm; m++ {
		if len(ts) == 0 {
			ts = append(ts, g.randomToken())
			how = append(how, "insert-into-empty")
			continue
		}
		i := r.Intn(len(ts))
		switch r.Intn(10) {
		case 0: // delete
			how = append(how, "delete:"+ts[i].Text)
			ts = append(ts[:i:i], ts[i+1:]...)
		case 1: // duplicate
			how = append(how, "duplicate:"+ts[i].Text)
			ts = append(ts[:i+1:i+1], ts[i:]...)
		case 2: // swap with neighbour or a random other token
			j := r.Intn(len(ts))
			if r.Intn(2) == 0 && i+1 < len(ts) {
				j = i + 1
			}
			how = append(how, "swap:"+ts[i].Text+"<->"+ts[j].Text)
			ts = append([]Token{}, ts...)
			ts[i], ts[j] = ts[j], ts[i]
		case 3, 4: // replace
			nt := g.randomToken()
			how = append(how, "replace:"+ts[i].Text+"->"+nt.Text)
			ts = append([]Token{}, ts...)
			ts[i] = nt
		case 5, 6: // insert
			nt := g.randomToken()
			how = append(how, "insert:"+nt.Text)
			ts = append(ts[:i:i], append([]Token{nt}, ts[i:]...)...)
		case 7: // truncate at a token boundary
			how = append(how, "truncate-tokens")
			ts = ts[:i:i]
		case 8: // splice: prefix of this text + suffix of another valid text
			other := Tokenise(g.valid(false).S)
			j := 0
			if len(other) > 0 {
				j = r.Intn(len(other))
			}
			how = append(how, "splice")
			ts = append(ts[:i:i], other[j:]...)
		default: // delete a run of tokens
			j := i + 1 + r.Intn(4)
			if j > len(ts) {
				j = len(ts)
			}
			how = append(how, "delete-run")
			ts = append(ts[:i:i], ts[j:]...)
		}
	}
	s := Join(ts)
	if r.Intn(12) == 0 && len(s) > 0 { // truncate in the middle of a token
		s = s[:r.Intn(len(s))]
		how = append(how, "truncate-bytes")
	}
	if len(s) > MaxText {
		s = s[:MaxText]
		how = append(how, "cut-to-2KB")
	}
	return &Text{Class: ClassMutant, S: s, How: strings.Join(how, " | ")}
}

// ---------- raw byte strings ----------

var rawAlphabet = []string{"#", "$", "~", "^", "%", "`", "\x00", "\xff", "\xfe", "\x80", "\xc0\xaf", "\"", "\\", "'", "{", "}", "(", ")", "[", "]",
	"rule", "begin", "end", "salience", "if", "else", "return", " ", "\n", "\t", "\r", "//", "=", "==", "1", "-", ".", "x", "\"n\"", "@name", "@", ";", ","}

// Raw generates a raw byte string.
func (g *Gen) Raw() *Text {
	r := g.R
	t := &Text{Class: ClassRaw}
	switch r.Intn(12) {
	case 0:
		t.S, t.How = "", "empty"
	case 1:
		var b strings.Builder
		for n := 1 + r.Intn(20); n > 0; n-- {
			b.WriteString(pick(r, " ", "\t", "\n", "\r", "\r\n"))
		}
		t.S, t.How = b.String(), "white space only"
	case 2:
		var b strings.Builder
		for n := 1 + r.Intn(4); n > 0; n-- {
			b.WriteString(pick(r, "// only a comment", "//", "// rule \"x\" begin end", "  // c") + "\n")
		}
		s := b.String()
		if r.Intn(2) == 0 {
			s = strings.TrimSuffix(s, "\n") // last comment without its newline
		}
		t.S, t.How = s, "comments only"
	case 3, 4, 5: // uniformly random bytes
		n := 1 + r.Intn(200)
		if r.Intn(10) == 0 {
			n = MaxText
		}
		b := make([]byte, n)
		for i := range b {
			b[i] = byte(r.Intn(256))
		}
		t.S, t.How = string(b), "random bytes"
	case 6, 7, 8: // random pieces of an alphabet of DSL fragments and unknown characters
		var b strings.Builder
		for n := 1 + r.Intn(60); n > 0; n-- {
			b.WriteString(pick(r, rawAlphabet...))
		}
		t.S, t.How = b.String(), "random DSL fragments"
	case 9: // printable ASCII noise
		n := 1 + r.Intn(120)
		b := make([]byte, n)
		for i := range b {
			b[i] = byte(32 + r.Intn(95))
		}
		t.S, t.How = string(b), "printable noise"
	default: // a valid text with raw bytes sprinkled in (outside of our control where they land)
		s := []byte(g.valid(false).S)
		for n := 1 + r.Intn(3); n > 0 && len(s) > 0; n-- {
			p := r.Intn(len(s))
			ins := []byte(pick(r, "#", "$", "~", "^", "%", "`", "\x00", "\xff", "\x80", "?", "'", "\\"))
			if r.Intn(2) == 0 {
				s = append(s[:p:p], append(ins, s[p:]...)...)
			} else {
				s[p] = ins[0]
			}
		}
		t.S, t.How = string(s), "valid text with raw bytes"
	}
	if len(t.S) > MaxText {
		t.S = t.S[:MaxText]
	}
	return t
}

// Next draws the text of the case: 60 % mutants (of which a part are duplicate-name texts),
// 20 % valid, 20 % raw.
func (g *Gen) Next() *Text {
	p := g.R.Intn(100)
	switch {
	case p < 20:
		return g.Valid()
	case p < 40:
		return g.Raw()
	case p < 50:
		return g.DupName()
	case p < 54:
		return g.Invisible()
	default:
		return g.Mutant()
	}
}

// Invisible wraps a valid text in characters an editor does not show (byte-order mark, zero-width and
// no-break spaces, form feed, NUL) at its very beginning or end: whatever the verdict, it is the same everywhere.
func (g *Gen) Invisible() *Text {
	v := g.valid(false)
	inv := []string{"\ufeff", "\u200b", "\u00a0", "\x0c", "\x00", "\ufeff\ufeff", "\u2028"}[g.R.Intn(7)]
	t := &Text{Class: ClassMutant, NamesKnown: false, Names: v.Names}
	if g.R.Intn(3) > 0 {
		t.S, t.How = inv+v.S, fmt.Sprintf("valid text prefixed with %q", inv)
	} else {
		t.S, t.How = v.S+inv, fmt.Sprintf("valid text followed by %q", inv)
	}
	return t
}

// Merge is the model of an incremental update: rules of t replace rules of the same name.
func Merge(known []RRule, t []RRule) []RRule {
	redefined := map[string]bool{}
	for _, r := range t {
		redefined[r.Name] = true
	}
	var out []RRule
	for _, r := range known {
		if !redefined[r.Name] {
			out = append(out, r)
		}
	}
	return append(out, t...)
}

// ByPriority returns the rules in the order the sort model runs them (saliences are distinct).
func ByPriority(rs []RRule) []RRule {
	out := append([]RRule{}, rs...)
	sort.SliceStable(out, func(i, j int) bool { return out[i].Sal > out[j].Sal })
	return out
}
