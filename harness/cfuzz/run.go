package cfuzz

import (
	"fmt"
	"sort"
	"strconv"
	"strings"
	"sync"

	"github.com/bilibili/gengine/builder"
	"github.com/bilibili/gengine/context"
	"github.com/bilibili/gengine/engine"
	"verifharness/fw"
)

// Entry point names (also used in violation keys).
const (
	EFull     = "full"             // RuleBuilder.BuildRuleFromString
	EIncr     = "incremental"      // RuleBuilder.BuildRuleWithIncremental
	EPoolNew  = "pool-new"         // engine.NewGenginePool
	EPoolFull = "pool-full"        // GenginePool.UpdatePooledRules
	EPoolIncr = "pool-incremental" // GenginePool.UpdatePooledRulesIncremental
)

var entryOrder = []string{EFull, EIncr, EPoolNew, EPoolFull, EPoolIncr}

// recorder is the injected observer tr(version).
type recorder struct {
	mu sync.Mutex
	vs []int64
}

func (rc *recorder) tr(v int64) {
	rc.mu.Lock()
	rc.vs = append(rc.vs, v)
	rc.mu.Unlock()
}

func (rc *recorder) take() []int64 {
	rc.mu.Lock()
	defer rc.mu.Unlock()
	out := rc.vs
	rc.vs = nil
	return out
}

// outcome of one entry-point call
type outcome struct {
	accepted bool
	panicked bool
	panicVal string
}

func guard(f func() error) (o outcome) {
	defer func() {
		if p := recover(); p != nil {
			o.panicked = true
			o.accepted = false
			o.panicVal = trunc(fmt.Sprint(p), 300)
		}
	}()
	o.accepted = f() == nil
	return
}

func trunc(s string, n int) string {
	if len(s) > n {
		return s[:n] + "…"
	}
	return s
}

// setObs is what can be seen of an installed rule set from outside.
type setObs struct {
	Trace   string `json:"trace"`    // versions in execution order (sort model)
	Result  string `json:"result"`   // result map name->value, sorted
	ExecErr bool   `json:"exec_err"` // the execution returned an error
	Panic   string `json:"panic,omitempty"`
	Exist   string `json:"exist"` // IsExist over the name universe
	N       int    `json:"n"`     // number of rules
	Sal     string `json:"sal,omitempty"`
}

func (o setObs) String() string {
	return fmt.Sprintf("trace=[%s] result={%s} exec_err=%v panic=%q exist=%s n=%d sal=%s", o.Trace, o.Result, o.ExecErr, o.Panic, o.Exist, o.N, o.Sal)
}

func fmtTrace(vs []int64) string {
	ss := make([]string, len(vs))
	for i, v := range vs {
		ss[i] = strconv.FormatInt(v, 10)
	}
	return strings.Join(ss, " ")
}

func fmtResult(m map[string]interface{}) string {
	ks := make([]string, 0, len(m))
	for k := range m {
		ks = append(ks, k)
	}
	sort.Strings(ks)
	var b strings.Builder
	for i, k := range ks {
		if i > 0 {
			b.WriteString(", ")
		}
		fmt.Fprintf(&b, "%q:%v", k, m[k])
	}
	return b.String()
}

func fmtBools(bs []bool) string {
	var b strings.Builder
	for _, x := range bs {
		if x {
			b.WriteByte('1')
		} else {
			b.WriteByte('0')
		}
	}
	return b.String()
}

// expected observation of a model set
func expectObs(rules []RRule, universe []string, withSal bool) setObs {
	pr := ByPriority(rules)
	vs := make([]int64, len(pr))
	res := map[string]interface{}{}
	by := map[string]RRule{}
	for i, r := range pr {
		vs[i] = r.Version
		res[r.Name] = r.Version
		by[r.Name] = r
	}
	ex := make([]bool, len(universe))
	var sal []string
	for i, n := range universe {
		r, ok := by[n]
		ex[i] = ok
		if ok {
			sal = append(sal, strconv.FormatInt(r.Sal, 10))
		} else {
			sal = append(sal, "-")
		}
	}
	o := setObs{Trace: fmtTrace(vs), Result: fmtResult(res), Exist: fmtBools(ex), N: len(rules)}
	if withSal {
		o.Sal = strings.Join(sal, ",")
	}
	return o
}

// builderTarget is a rule builder pre-loaded with the known set.
type builderTarget struct {
	rb  *builder.RuleBuilder
	rec *recorder
}

func newBuilderTarget(knownText string) (*builderTarget, error) {
	rec := &recorder{}
	dc := context.NewDataContext()
	dc.Add("tr", rec.tr)
	rb := builder.NewRuleBuilder(dc)
	if err := rb.BuildRuleFromString(knownText); err != nil {
		return nil, err
	}
	return &builderTarget{rb: rb, rec: rec}, nil
}

// observe executes the sort model on a fresh engine and queries IsExist.
// names == nil: run the whole set; otherwise only the selected rules.
func (t *builderTarget) observe(universe []string, selected []string) (o setObs) {
	defer func() {
		if p := recover(); p != nil {
			o.Panic = trunc(fmt.Sprint(p), 200)
		}
	}()
	t.rec.take()
	eng := engine.NewGengine()
	var err error
	if selected == nil {
		err = eng.Execute(t.rb, true)
	} else {
		err = eng.ExecuteSelectedRules(t.rb, selected)
	}
	o.ExecErr = err != nil
	o.Trace = fmtTrace(t.rec.take())
	res, _ := eng.GetRulesResultMap()
	o.Result = fmtResult(res)
	o.Exist = fmtBools(t.rb.IsExist(universe))
	o.N = len(t.rb.Kc.RuleEntities)
	if o.N == 0 && o.Trace == "" {
		o.ExecErr = false // whether executing an EMPTY set is an error is not this property's subject
	}
	return
}

func (t *builderTarget) exist(names []string) []bool { return t.rb.IsExist(names) }
func (t *builderTarget) count() int                  { return len(t.rb.Kc.RuleEntities) }

// poolTarget is a (1,2) sort-model pool.
type poolTarget struct {
	p   *engine.GenginePool
	rec *recorder
}

func newPool(text string) (*poolTarget, outcome) {
	rec := &recorder{}
	apis := map[string]interface{}{"tr": rec.tr}
	t := &poolTarget{rec: rec}
	var perr error
	o := guard(func() error {
		var e error
		t.p, e = engine.NewGenginePool(1, 2, engine.SortModel, text, apis)
		perr = e
		return e
	})
	_ = perr
	return t, o
}

// observe runs the sort model twice (the two instances of the pool take turns) and queries.
func (t *poolTarget) observe(universe []string, selected []string) (o setObs) {
	defer func() {
		if p := recover(); p != nil {
			o.Panic = trunc(fmt.Sprint(p), 200)
		}
	}()
	var first setObs
	for round := 0; round < 2; round++ {
		t.rec.take()
		var err error
		var res map[string]interface{}
		if selected == nil {
			err, res = t.p.Execute(map[string]interface{}{}, true)
		} else {
			err, res = t.p.ExecuteSelectedRules(map[string]interface{}{}, selected)
		}
		cur := setObs{ExecErr: err != nil, Trace: fmtTrace(t.rec.take()), Result: fmtResult(res)}
		if round == 0 {
			first = cur
		} else if cur != first {
			// the two executions disagree: report both
			first.Trace += " || " + cur.Trace
			first.Result += " || " + cur.Result
			first.ExecErr = first.ExecErr || cur.ExecErr
		}
	}
	o = first
	o.Exist = fmtBools(t.p.IsExist(universe))
	o.N = t.p.GetRulesNumber()
	if o.N == 0 && o.Trace == "" {
		o.ExecErr = false
	}
	sal := make([]string, len(universe))
	for i, n := range universe {
		if s, e := t.p.GetRuleSalience(n); e == nil {
			sal[i] = strconv.FormatInt(s, 10)
		} else {
			sal[i] = "-"
		}
	}
	o.Sal = strings.Join(sal, ",")
	return
}

func (t *poolTarget) exist(names []string) []bool { return t.p.IsExist(names) }
func (t *poolTarget) count() int                  { return t.p.GetRulesNumber() }

type target interface {
	observe(universe []string, selected []string) setObs
	exist(names []string) []bool
	count() int
}

// per-process cap of reports per key, so that one frequent finding cannot crowd out the others
var (
	repMu   sync.Mutex
	repSeen = map[string]int{}
)

const maxReportsPerKey = 3

type runner struct {
	k        *fw.Case
	g        *Gen
	t        *Text
	universe []string
}

func (r *runner) violate(key, what string, extra map[string]interface{}) {
	r.k.Count("viol:"+key, 1)
	repMu.Lock()
	repSeen[key]++
	n := repSeen[key]
	repMu.Unlock()
	if n > maxReportsPerKey && !r.k.Replay {
		r.k.Count("violations_not_listed_same_key", 1)
		return
	}
	d := map[string]interface{}{
		"text":                    r.t.S,
		"text_quoted":             strconv.Quote(r.t.S),
		"text_class":              r.t.Class,
		"how":                     r.t.How,
		"known_set":               r.g.Known.Text,
		"contains_unlexable_byte": HasUnlexableByte(r.t.S),
	}
	for k, v := range extra {
		d[k] = v
	}
	r.k.Violate(key, what, d)
}

// definitelyUndefined: the known names that the text certainly does not define.
func (r *runner) definitelyUndefined() []string {
	var out []string
	for _, n := range r.g.Known.Names() {
		if r.t.NamesKnown {
			found := false
			for _, x := range r.t.Names {
				if x == n {
					found = true
				}
			}
			if !found {
				out = append(out, n)
			}
		} else if !strings.Contains(r.t.S, n) {
			// a rule name is the literal text between the quotes of one token
			out = append(out, n)
		}
	}
	return out
}

func distinctNames(ns []string) []string {
	seen := map[string]bool{}
	var out []string
	for _, n := range ns {
		if !seen[n] {
			seen[n] = true
			out = append(out, n)
		}
	}
	return out
}

// checkReplaced: after a successful full build only the rules of T may be installed.
func (r *runner) checkReplaced(entry string, tg target) {
	t := r.t
	key := entry + "/not-replaced"
	if entry == EPoolNew {
		key = entry + "/not-installed"
	}
	if t.Runnable {
		want := expectObs(t.Rules, r.universe, false)
		got := tg.observe(r.universe, nil)
		got.Sal = ""
		if got != want {
			r.violate(key, fmt.Sprintf("%s accepted a runnable text but the installed set is not exactly the rules of the text", entry),
				map[string]interface{}{"entry": entry, "want": want.String(), "got": got.String(), "rules_of_text": t.Rules})
		}
		return
	}
	und := r.definitelyUndefined()
	if len(und) > 0 && entry != EPoolNew {
		ex := tg.exist(und)
		for i, e := range ex {
			if e {
				r.violate(key, fmt.Sprintf("%s accepted the text, yet a rule of the previous set that the text does not define still exists", entry),
					map[string]interface{}{"entry": entry, "surviving_rule": und[i]})
				break
			}
		}
	}
	if t.NamesKnown && !t.DupName {
		names := distinctNames(t.Names)
		ex := tg.exist(names)
		ok := len(ex) == len(names)
		for _, e := range ex {
			ok = ok && e
		}
		if n := tg.count(); !ok || n != len(names) {
			r.violate(key, fmt.Sprintf("%s accepted a valid text but IsExist/number of rules do not match the rules of the text", entry),
				map[string]interface{}{"entry": entry, "names_of_text": names, "is_exist": fmtBools(ex), "number_of_rules": n})
		}
	}
}

// checkMerged: after a successful incremental update the known rules that T does not redefine
// still exist and still run with their versions; rules of T are installed.
func (r *runner) checkMerged(entry string, tg target) {
	t := r.t
	key := entry + "/not-merged"
	kn := r.g.Known
	if t.Runnable {
		want := expectObs(Merge(kn.Rules, t.Rules), r.universe, false)
		got := tg.observe(r.universe, nil)
		got.Sal = ""
		if got != want {
			r.violate(key, fmt.Sprintf("%s accepted a runnable text but the installed set is not the merge of the previous set and the text", entry),
				map[string]interface{}{"entry": entry, "want": want.String(), "got": got.String(), "rules_of_text": t.Rules, "known_rules": kn.Rules})
		}
		return
	}
	// not runnable as a whole: all known names still exist ...
	ex := tg.exist(kn.Names())
	for i, e := range ex {
		if !e {
			r.violate(key, fmt.Sprintf("%s accepted the text and a rule of the previous set disappeared", entry),
				map[string]interface{}{"entry": entry, "missing_rule": kn.Names()[i]})
			return
		}
	}
	// ... and those the text certainly does not redefine still run with their versions
	und := r.definitelyUndefined()
	if len(und) > 0 {
		var surv []RRule
		for _, kr := range kn.Rules {
			for _, n := range und {
				if n == kr.Name {
					surv = append(surv, kr)
				}
			}
		}
		want := expectObs(surv, nil, false)
		got := tg.observe(nil, und)
		if got.Trace != want.Trace || got.Result != want.Result || got.ExecErr || got.Panic != "" {
			r.violate(key, fmt.Sprintf("%s accepted the text and rules of the previous set that the text does not define no longer run as before", entry),
				map[string]interface{}{"entry": entry, "selected": und, "want_trace": want.Trace, "want_result": want.Result, "got": got.String()})
			return
		}
	}
	if t.NamesKnown && !t.DupName {
		names := distinctNames(append(append([]string{}, kn.Names()...), t.Names...))
		exAll := tg.exist(names)
		ok := len(exAll) == len(names)
		for _, e := range exAll {
			ok = ok && e
		}
		if n := tg.count(); !ok || n != len(names) {
			r.violate(key, fmt.Sprintf("%s accepted a valid text but IsExist/number of rules do not match previous set + rules of the text", entry),
				map[string]interface{}{"entry": entry, "names": names, "is_exist": fmtBools(exAll), "number_of_rules": n})
		}
	}
}

// Run is one C10 case: one text through the five entry points.
func Run(k *fw.Case) {
	g := NewGen(k.Rng)
	t := g.Next()
	if k.Index%DeepEvery == DeepAt {
		t = g.Deep(k.Index / DeepEvery)
	}
	if k.Replay {
		fmt.Printf("C10 case %d: class=%s how=%q text=%q\n", k.Index, t.Class, t.How, t.S)
	}
	// "in any state of the builder/pool": three cases in eight start from a state that earlier management
	// calls produced - a rule removed, everything removed / cleared, a rule replaced incrementally
	origNames := g.Known.Names()
	origRules := append([]RRule{}, g.Known.Rules...)
	loadText := g.Known.Text
	var prepB func(rb *builder.RuleBuilder) error
	var prepP func(p *engine.GenginePool) error
	state := "preloaded"
	if len(g.sals) > 0 {
		switch k.Index % 8 {
		case 2:
			state = "one-rule-removed"
			pr := ByPriority(g.Known.Rules)
			victims := []string{pr[k.Index/8%2].Name} // the first or the middle rule: rules behind it move up
			if k.Index/16%3 == 2 {
				// two of the three go: exactly ONE rule is left
				state = "one-rule-left"
				victims = []string{pr[0].Name, pr[1+k.Index/8%2].Name}
			}
			gone := map[string]bool{}
			for _, v := range victims {
				gone[v] = true
			}
			var rest []RRule
			for _, ru := range g.Known.Rules {
				if !gone[ru.Name] {
					rest = append(rest, ru)
				}
			}
			g.Known = &Known{Rules: rest, Text: loadText}
			prepB = func(rb *builder.RuleBuilder) error { return rb.RemoveRules(victims) }
			prepP = func(p *engine.GenginePool) error { return p.RemoveRules(victims) }
		case 5:
			state = "emptied"
			all := g.Known.Names()
			g.Known = &Known{Text: loadText}
			prepB = func(rb *builder.RuleBuilder) error { return rb.RemoveRules(all) }
			if k.Index/8%2 == 0 {
				state = "cleared"
				prepP = func(p *engine.GenginePool) error { p.ClearPoolRules(); return nil }
			} else {
				prepP = func(p *engine.GenginePool) error { return p.RemoveRules(all) }
			}
		case 7:
			state = "one-rule-replaced"
			pr := ByPriority(g.Known.Rules)
			old := pr[len(pr)-1-k.Index/8%2]
			nr := RRule{Name: old.Name, Sal: old.Sal, Version: g.nextVer()}
			if k.Index/16%2 == 0 {
				nr.Sal = g.nextSal()
			}
			txt := g.runnableRuleText(nr, false)
			var rules []RRule
			for _, ru := range g.Known.Rules {
				if ru.Name == old.Name {
					ru = nr
				}
				rules = append(rules, ru)
			}
			g.Known = &Known{Rules: rules, Text: loadText}
			prepB = func(rb *builder.RuleBuilder) error { return rb.BuildRuleWithIncremental(txt) }
			prepP = func(p *engine.GenginePool) error { return p.UpdatePooledRulesIncremental(txt) }
		}
	}
	if state != "preloaded" && k.Index/8%3 == 0 {
		// the very text the builder / pool was loaded with is submitted once more (byte-identical): a full
		// build must install it again, an incremental build must merge it into what is there now
		t = &Text{Class: ClassValid, S: loadText, How: "the text of the initial load, once more", Runnable: true, Rules: origRules, NamesKnown: true, Names: origNames}
		k.Count("initial_text_submitted_again", 1)
	}
	k.Count("prior_state_"+state, 1)
	kn := g.Known
	r := &runner{k: k, g: g, t: t}
	r.universe = distinctNames(append(append(append(append([]string{}, origNames...), kn.Names()...), t.Names...), "no_such_rule"))

	cls := t.Class
	k.Count("texts_"+cls, 1)
	if t.Runnable {
		k.Count("texts_valid_runnable", 1)
	}
	k.Max("text_bytes_max", int64(len(t.S)))

	wantKnown := expectObs(kn.Rules, r.universe, false)
	wantKnownPool := expectObs(kn.Rules, r.universe, true)
	res := map[string]outcome{}

	// preloaded builders and pools; the known set must behave as modelled, otherwise no verdict
	preB := func() *builderTarget {
		bt, err := newBuilderTarget(loadText)
		if err != nil {
			k.Inconclusive("the known set does not compile: " + trunc(err.Error(), 200))
			return nil
		}
		if prepB != nil {
			if o := guard(func() error { return prepB(bt.rb) }); !o.accepted {
				k.Inconclusive("the prior state (" + state + ") could not be set up on a builder (C08's subject): " + o.panicVal)
				return nil
			}
		}
		if s0 := bt.observe(r.universe, nil); s0 != wantKnown {
			k.Inconclusive("a builder pre-loaded with the known set does not behave as modelled: " + s0.String() + " want " + wantKnown.String())
			return nil
		}
		return bt
	}
	preP := func() *poolTarget {
		pt, o := newPool(loadText)
		if !o.accepted || pt.p == nil {
			k.Inconclusive("no pool for the known set: " + o.panicVal)
			return nil
		}
		if prepP != nil {
			if o := guard(func() error { return prepP(pt.p) }); !o.accepted {
				k.Inconclusive("the prior state (" + state + ") could not be set up on a pool (C16's subject): " + o.panicVal)
				return nil
			}
		}
		if s0 := pt.observe(r.universe, nil); s0 != wantKnownPool {
			k.Inconclusive("a pool pre-loaded with the known set does not behave as modelled: " + s0.String() + " want " + wantKnownPool.String())
			return nil
		}
		return pt
	}

	failedChanged := func(entry string, tg target, want setObs) {
		got := tg.observe(r.universe, nil)
		if got != want {
			r.violate(entry+"/failed-but-changed", fmt.Sprintf("%s reported an error, yet the installed rule set is not what it was before the call", entry),
				map[string]interface{}{"entry": entry, "before": want.String(), "after": got.String()})
		}
	}
	panicked := func(entry string, o outcome) {
		r.violate(entry+"/panic", fmt.Sprintf("%s panicked into the caller: %s", entry, o.panicVal),
			map[string]interface{}{"entry": entry, "panic": o.panicVal})
	}

	// 1. full build on a pre-loaded builder
	if bt := preB(); bt != nil {
		o := guard(func() error { return bt.rb.BuildRuleFromString(t.S) })
		res[EFull] = o
		switch {
		case o.panicked:
			panicked(EFull, o)
			failedChanged(EFull, bt, wantKnown)
		case !o.accepted:
			failedChanged(EFull, bt, wantKnown)
		default:
			r.checkReplaced(EFull, bt)
		}
	} else {
		return
	}

	// 2. incremental build on another pre-loaded builder
	if bt := preB(); bt != nil {
		o := guard(func() error { return bt.rb.BuildRuleWithIncremental(t.S) })
		res[EIncr] = o
		switch {
		case o.panicked:
			panicked(EIncr, o)
			failedChanged(EIncr, bt, wantKnown)
		case !o.accepted:
			failedChanged(EIncr, bt, wantKnown)
		default:
			r.checkMerged(EIncr, bt)
		}
	} else {
		return
	}

	// 3. pool construction
	{
		pt, o := newPool(t.S)
		res[EPoolNew] = o
		switch {
		case o.panicked:
			panicked(EPoolNew, o)
		case o.accepted && pt.p == nil:
			r.violate(EPoolNew+"/nil-pool-without-error", "NewGenginePool returned neither a pool nor an error", map[string]interface{}{"entry": EPoolNew})
		case !o.accepted && pt.p != nil:
			r.violate(EPoolNew+"/pool-with-error", "NewGenginePool returned a pool together with an error", map[string]interface{}{"entry": EPoolNew})
		case o.accepted:
			r.checkReplaced(EPoolNew, pt)
		}
	}

	// 4. full update of a pre-loaded pool
	if pt := preP(); pt != nil {
		o := guard(func() error { return pt.p.UpdatePooledRules(t.S) })
		res[EPoolFull] = o
		switch {
		case o.panicked:
			panicked(EPoolFull, o)
			failedChanged(EPoolFull, pt, wantKnownPool)
		case !o.accepted:
			failedChanged(EPoolFull, pt, wantKnownPool)
		default:
			r.checkReplaced(EPoolFull, pt)
		}
	} else {
		return
	}

	// 5. incremental update of another pre-loaded pool
	if pt := preP(); pt != nil {
		o := guard(func() error { return pt.p.UpdatePooledRulesIncremental(t.S) })
		res[EPoolIncr] = o
		switch {
		case o.panicked:
			panicked(EPoolIncr, o)
			failedChanged(EPoolIncr, pt, wantKnownPool)
		case !o.accepted:
			failedChanged(EPoolIncr, pt, wantKnownPool)
		default:
			r.checkMerged(EPoolIncr, pt)
		}
	} else {
		return
	}

	k.Eval(5)
	k.Count("entry_calls", 5)

	// 6. agreement (a panicking entry point has no verdict of its own; the panic is reported above)
	var acc, rej []string
	verdicts := map[string]string{}
	for _, e := range entryOrder {
		o := res[e]
		switch {
		case o.panicked:
			verdicts[e] = "panic"
		case o.accepted:
			acc = append(acc, e)
			verdicts[e] = "accepted"
		default:
			rej = append(rej, e)
			verdicts[e] = "rejected"
		}
	}
	sort.Strings(acc)
	sort.Strings(rej)
	acceptedAll := len(acc) == len(entryOrder)
	switch {
	case acceptedAll:
		k.Count("accepted_by_all", 1)
		if cls == ClassMutant {
			k.Count("mutants_accepted_by_all", 1)
		}
	case len(rej) == len(entryOrder):
		k.Count("rejected_by_all", 1)
		if cls == ClassValid {
			k.Count("valid_texts_rejected_by_all", 1)
		}
	}
	if len(acc) > 0 && len(rej) > 0 {
		var key string
		switch {
		case len(acc) == 1:
			key = "agreement/" + acc[0] + "-accepts"
		case len(rej) == 1:
			key = "agreement/" + rej[0] + "-rejects"
		default:
			key = "agreement/" + strings.Join(acc, "+") + "-vs-" + strings.Join(rej, "+")
		}
		r.violate(key, fmt.Sprintf("the entry points disagree on one text: accepted by [%s], rejected by [%s]", strings.Join(acc, ", "), strings.Join(rej, ", ")),
			map[string]interface{}{"verdicts": verdicts})
	}

	// 7. duplicate names are always rejected
	if t.DupName {
		for _, e := range acc {
			r.violate("duplicate-name/accepted-by-"+e, fmt.Sprintf("%s accepted a text that defines the same rule name twice", e),
				map[string]interface{}{"entry": e, "names_of_text": t.Names})
		}
	}

	if strings.TrimSpace(t.S) != "" {
		k.Distinct(cls, acceptedAll, len(acc), Signature(t.S))
	}
	k.Sample(map[string]interface{}{"class": cls, "how": trunc(t.How, 120), "text": strconv.Quote(trunc(t.S, 200)), "verdicts": verdicts})
}
