// Package algebra is the model-based monitor of property C08 (rule-set algebra of the
// builder): sequential histories of full builds, incremental builds and removals on ONE
// builder.RuleBuilder, compared after every operation with a plain Go map.
package algebra

import (
	"fmt"
	"sort"
	"strings"
)

// Operation kinds.
const (
	KFull        = "full"             // BuildRuleFromString, valid text
	KInc         = "incremental"      // BuildRuleWithIncremental, valid text
	KRemove      = "remove"           // RemoveRules, non-empty list
	KFullFail    = "full-fail"        // BuildRuleFromString, text that must be rejected
	KIncFail     = "incremental-fail" // BuildRuleWithIncremental, text that must be rejected
	KRemoveEmpty = "remove-empty"     // RemoveRules(nil) / RemoveRules([]string{}): must fail
)

// Relations of a rule of a build text to the set installed before the operation.
const (
	RelNew     = "new"     // name not installed
	RelEqual   = "equal"   // name installed, same salience
	RelChanged = "changed" // name installed, different salience
)

// Rule is one rule of the reference model (and of a generated text).
type Rule struct {
	Name     string `json:"name"`
	Version  int64  `json:"version"` // globally unique inside one history; the body is tr(V) return V
	Salience int64  `json:"salience"`
	NoSal    bool   `json:"no_salience_clause,omitempty"` // the text has no salience clause (= 0)
	Desc     string `json:"desc,omitempty"`               // "" = the text has no description
	Style    int    `json:"-"`                            // keyword spelling: 0 lower, 1 UPPER, 2 Capitalised
}

// Text renders the rule in the DSL.
func (r Rule) Text() string {
	kw := func(s string) string {
		switch r.Style {
		case 1:
			return strings.ToUpper(s)
		case 2:
			return strings.ToUpper(s[:1]) + s[1:]
		}
		return s
	}
	var b strings.Builder
	fmt.Fprintf(&b, "%s %q", kw("rule"), r.Name)
	if r.Desc != "" {
		fmt.Fprintf(&b, " %q", r.Desc)
	}
	if !r.NoSal {
		if r.Salience > 0 && r.Version%5 == 0 {
			fmt.Fprintf(&b, " %s 00%d", kw("salience"), r.Salience) // leading zeros: still a decimal number
		} else {
			fmt.Fprintf(&b, " %s %d", kw("salience"), r.Salience)
		}
	}
	fmt.Fprintf(&b, " %s tr(%d) %s %d %s", kw("begin"), r.Version, kw("return"), r.Version, kw("end"))
	return b.String()
}

func descFor(name string, v int64) string { return fmt.Sprintf("v%d of %s", v, name) }

// Op is one operation of a history.
type Op struct {
	Kind    string   `json:"kind"`
	Text    string   `json:"text,omitempty"`  // build operations
	Names   []string `json:"names,omitempty"` // removals (nil and empty both render as absent)
	NilList bool     `json:"nil_list,omitempty"`
	Again   bool     `json:"again,omitempty"` // the text of an earlier build operation, pushed once more
	Fail    string   `json:"fail,omitempty"`  // failing texts: syntax-* | duplicate-name | blank
	Rules   []Rule   `json:"rules,omitempty"` // the rules of the text (failing texts: what must NOT get installed)
	Rel     []string `json:"rel,omitempty"`   // per rule of a valid build: new | equal | changed
	// filled in by the runner
	WantErr bool   `json:"want_err"`
	GotErr  *bool  `json:"got_err,omitempty"` // nil = not executed / panicked
	Panic   string `json:"panic,omitempty"`
	SetSize int    `json:"model_size_after"`
}

// Model is the reference: name -> rule.
type Model map[string]Rule

func (m Model) clone() Model {
	c := make(Model, len(m))
	for k, v := range m {
		c[k] = v
	}
	return c
}

// Apply is the denotation of a (valid) operation; failing operations denote the identity.
func (m Model) Apply(op *Op) {
	switch op.Kind {
	case KFull:
		for k := range m {
			delete(m, k)
		}
		for _, r := range op.Rules {
			m[r.Name] = r
		}
	case KInc:
		for _, r := range op.Rules {
			m[r.Name] = r
		}
	case KRemove:
		for _, n := range op.Names {
			delete(m, n)
		}
	}
}

// Sorted lists the model by (salience desc, name) for the witness.
func (m Model) Sorted() []Rule {
	out := make([]Rule, 0, len(m))
	for _, r := range m {
		out = append(out, r)
	}
	sort.Slice(out, func(i, j int) bool {
		if out[i].Salience != out[j].Salience {
			return out[i].Salience > out[j].Salience
		}
		return out[i].Name < out[j].Name
	})
	return out
}

func (m Model) names() []string {
	out := make([]string, 0, len(m))
	for n := range m {
		out = append(out, n)
	}
	sort.Strings(out)
	return out
}

// HasTie reports whether two installed rules share a salience.
func (m Model) HasTie() bool {
	seen := map[int64]bool{}
	for _, r := range m {
		if seen[r.Salience] {
			return true
		}
		seen[r.Salience] = true
	}
	return false
}
