package algebra

import (
	"math"
	"math/rand"
	"strings"
)

// Alphabet is the name alphabet of the histories: a digit-only name, a name with a space,
// names that differ only in letter case, a non-ASCII name, a name that spells a keyword.
// "x " and " r1" differ from "x" and "r1" only by a blank at the edge: different names.
var Alphabet = []string{"r1", "R1", "17", "my rule", "x", "规则7", "a.b-c", "end", "x ", " r1"}

// NeverUsed are queried through IsExist and named in removals, but never built.
var NeverUsed = []string{"ghost", "r"}

var wide = []int64{1000000007, -1000000007, math.MaxInt64, math.MinInt64, math.MaxInt64 - 1, math.MinInt64 + 1}

// Gen generates the operations of one history against the current model.
type Gen struct {
	R    *rand.Rand
	next int64 // version counter
	// earlier valid build operations of this history: their texts are pushed again, byte for byte
	fulls, incs []*Op
}

// again re-issues an earlier build operation with the same text (a configuration centre pushing a text it
// pushed before): a full build replaces everything by it once more, an incremental build merges it again,
// whatever incremental builds and removals happened in between.
func (g *Gen) again(m Model, old *Op) *Op {
	op := &Op{Kind: old.Kind, Text: old.Text, Rules: append([]Rule{}, old.Rules...), Again: true}
	for _, r := range op.Rules {
		op.Rel = append(op.Rel, relOf(m, r))
	}
	return op
}

func NewGen(r *rand.Rand) *Gen { return &Gen{R: r, next: 1} }

func (g *Gen) version() int64 { v := g.next; g.next++; return v }

func (g *Gen) anySalience() int64 {
	if g.R.Intn(12) == 0 {
		return wide[g.R.Intn(len(wide))]
	}
	return int64(g.R.Intn(7) - 3)
}

// tieSalience prefers the salience of an installed rule or of a rule already in the text.
func (g *Gen) tieSalience(m Model, sofar []Rule) int64 {
	var pool []int64
	for _, n := range m.names() {
		pool = append(pool, m[n].Salience)
	}
	for _, r := range sofar {
		pool = append(pool, r.Salience)
	}
	if len(pool) == 0 || g.R.Intn(5) < 2 {
		return g.anySalience()
	}
	return pool[g.R.Intn(len(pool))]
}

// changedSalience returns a salience different from old: a tie with another rule, just
// outside the installed range (front / back insertion), or anything else.
func (g *Gen) changedSalience(m Model, old int64, sofar []Rule) int64 {
	for try := 0; try < 20; try++ {
		var s int64
		switch g.R.Intn(4) {
		case 0:
			s = g.tieSalience(m, sofar)
		case 1: // above the maximum / below the minimum of the installed set
			lo, hi := int64(0), int64(0)
			first := true
			for _, r := range m {
				if first || r.Salience < lo {
					lo = r.Salience
				}
				if first || r.Salience > hi {
					hi = r.Salience
				}
				first = false
			}
			if g.R.Intn(2) == 0 {
				if hi == math.MaxInt64 {
					continue
				}
				s = hi + 1
			} else {
				if lo == math.MinInt64 {
					continue
				}
				s = lo - 1
			}
		case 2: // neighbour value
			if old == math.MaxInt64 || old == math.MinInt64 {
				continue
			}
			s = old + int64(1-2*g.R.Intn(2))
		default:
			s = g.anySalience()
		}
		if s != old {
			return s
		}
	}
	if old == 3 {
		return -3
	}
	return 3
}

func (g *Gen) mkRule(name string, sal int64) Rule {
	r := Rule{Name: name, Version: g.version(), Salience: sal, Style: 0}
	if sal == 0 && g.R.Intn(2) == 0 {
		r.NoSal = true
	}
	if g.R.Intn(5) < 2 {
		r.Desc = descFor(name, r.Version)
	}
	if g.R.Intn(6) == 0 {
		r.Style = 1 + g.R.Intn(2)
	}
	return r
}

func textOf(rules []Rule, sep string) string {
	parts := make([]string, len(rules))
	for i, r := range rules {
		parts[i] = r.Text()
	}
	return strings.Join(parts, sep)
}

func (g *Gen) sep() string {
	return []string{"\n", " ", "\n\n", "\n\t"}[g.R.Intn(4)]
}

func (g *Gen) pickNames(n int) []string {
	p := g.R.Perm(len(Alphabet))
	if n > len(p) {
		n = len(p)
	}
	out := make([]string, n)
	for i := range out {
		out[i] = Alphabet[p[i]]
	}
	return out
}

func absentNames(m Model) []string {
	var out []string
	for _, n := range Alphabet {
		if _, ok := m[n]; !ok {
			out = append(out, n)
		}
	}
	return out
}

// Full generates a valid full build of 1-6 rules.
func (g *Gen) Full(m Model) *Op {
	n := 1 + g.R.Intn(6)
	if n == 1 && g.R.Intn(2) == 0 {
		n = 4
	}
	op := &Op{Kind: KFull}
	for _, name := range g.pickNames(n) {
		var sal int64
		if g.R.Intn(2) == 0 {
			sal = g.tieSalience(Model{}, op.Rules) // ties inside the text
		} else {
			sal = g.anySalience()
		}
		op.Rules = append(op.Rules, g.mkRule(name, sal))
	}
	for _, r := range op.Rules {
		op.Rel = append(op.Rel, relOf(m, r))
	}
	op.Text = textOf(op.Rules, g.sep())
	return op
}

func relOf(m Model, r Rule) string {
	old, ok := m[r.Name]
	switch {
	case !ok:
		return RelNew
	case old.Salience == r.Salience:
		return RelEqual
	}
	return RelChanged
}

// incRules generates 1-4 rules with distinct names: new names, installed names with equal
// salience, installed names with changed salience, in any mixture.
func (g *Gen) incRules(m Model, n int) []Rule {
	var rules []Rule
	used := map[string]bool{}
	installed := m.names()
	absent := absentNames(m)
	for i := 0; i < n; i++ {
		mode := g.R.Intn(10) // 0-2 new, 3-5 equal, 6-9 changed
		var cand []string
		if mode <= 2 {
			cand = absent
		} else {
			cand = installed
		}
		var free []string
		for _, c := range cand {
			if !used[c] {
				free = append(free, c)
			}
		}
		if len(free) == 0 { // fall back to any unused name
			for _, c := range Alphabet {
				if !used[c] {
					free = append(free, c)
				}
			}
		}
		if len(free) == 0 {
			break
		}
		name := free[g.R.Intn(len(free))]
		used[name] = true
		old, ok := m[name]
		var sal int64
		switch {
		case !ok:
			sal = g.tieSalience(m, rules)
		case mode <= 5:
			sal = old.Salience
		default:
			sal = g.changedSalience(m, old.Salience, rules)
		}
		rules = append(rules, g.mkRule(name, sal))
	}
	return rules
}

// Inc generates a valid incremental build.
func (g *Gen) Inc(m Model) *Op {
	op := &Op{Kind: KInc, Rules: g.incRules(m, 1+g.R.Intn(4))}
	for _, r := range op.Rules {
		op.Rel = append(op.Rel, relOf(m, r))
	}
	op.Text = textOf(op.Rules, g.sep())
	return op
}

// Remove generates a removal: present names, absent names, a mixture, or all names.
func (g *Gen) Remove(m Model) *Op {
	op := &Op{Kind: KRemove}
	installed := m.names()
	absent := append(absentNames(m), NeverUsed...)
	g.R.Shuffle(len(installed), func(i, j int) { installed[i], installed[j] = installed[j], installed[i] })
	g.R.Shuffle(len(absent), func(i, j int) { absent[i], absent[j] = absent[j], absent[i] })
	take := func(s []string, n int) []string {
		if n > len(s) {
			n = len(s)
		}
		return s[:n]
	}
	mode := g.R.Intn(10)
	switch {
	case len(installed) == 0 || mode == 0: // only absent names
		op.Names = append(op.Names, take(absent, 1+g.R.Intn(3))...)
	case mode == 1: // all installed names (sometimes with absent ones)
		op.Names = append(op.Names, installed...)
		if g.R.Intn(2) == 0 {
			op.Names = append(op.Names, take(absent, 1+g.R.Intn(2))...)
		}
	case mode <= 4: // mixture
		op.Names = append(op.Names, take(installed, 1+g.R.Intn(2))...)
		op.Names = append(op.Names, take(absent, 1+g.R.Intn(2))...)
	default: // present names only
		op.Names = append(op.Names, take(installed, 1+g.R.Intn(2))...)
	}
	g.R.Shuffle(len(op.Names), func(i, j int) { op.Names[i], op.Names[j] = op.Names[j], op.Names[i] })
	if len(op.Names) >= 2 && g.R.Intn(5) == 0 {
		// repeated names: the removal still deletes exactly the named rules
		for n := 1 + g.R.Intn(3); n > 0; n-- {
			op.Names = append(op.Names, op.Names[g.R.Intn(len(op.Names))])
		}
		g.R.Shuffle(len(op.Names), func(x, y int) { op.Names[x], op.Names[y] = op.Names[y], op.Names[x] })
	}
	return op
}

// RemoveEmpty generates RemoveRules(nil) or RemoveRules([]string{}).
func (g *Gen) RemoveEmpty() *Op {
	return &Op{Kind: KRemoveEmpty, NilList: g.R.Intn(2) == 0, WantErr: true}
}

// Fail generates a text that both build entry points must reject. The text consists of
// otherwise valid rules with fresh versions (over installed and new names), so a partial
// installation shows in the next trace.
func (g *Gen) Fail(m Model, kind string) *Op {
	op := &Op{Kind: kind, WantErr: true}
	switch g.R.Intn(8) {
	case 0: // blank
		op.Fail = "blank"
		op.Text = []string{"", " ", "\n\t  \n", "\t"}[g.R.Intn(4)]
		return op
	case 1, 2, 3: // the same name twice in one text
		op.Fail = "duplicate-name"
		rules := g.incRules(m, 1+g.R.Intn(3))
		d := rules[g.R.Intn(len(rules))]
		dup := g.mkRule(d.Name, d.Salience)
		if g.R.Intn(2) == 0 {
			dup.Salience = g.anySalience()
			dup.NoSal = false
		}
		at := g.R.Intn(len(rules) + 1)
		rules = append(rules[:at], append([]Rule{dup}, rules[at:]...)...)
		op.Rules = rules
		op.Text = textOf(rules, g.sep())
		return op
	}
	rules := g.incRules(m, 1+g.R.Intn(3))
	op.Rules = rules
	texts := make([]string, len(rules))
	for i, r := range rules {
		texts[i] = r.Text()
	}
	i := g.R.Intn(len(rules))
	t := texts[i]
	last := len(texts) - 1
	switch g.R.Intn(6) {
	case 0: // the last rule is not closed
		op.Fail = "syntax-missing-end"
		texts[last] = strings.TrimSuffix(strings.TrimSuffix(strings.TrimSuffix(texts[last], "end"), "END"), "End")
	case 1:
		op.Fail = "syntax-missing-begin"
		for _, b := range []string{" begin ", " BEGIN ", " Begin "} {
			t = strings.Replace(t, b, " ", 1)
		}
		texts[i] = t
	case 2:
		op.Fail = "syntax-open-paren"
		texts[i] = strings.Replace(t, ") ", " ", 1)
	case 3:
		op.Fail = "syntax-bad-char"
		texts[i] = strings.Replace(t, " tr(", " # tr(", 1)
	case 4:
		op.Fail = "syntax-salience-not-int"
		r := rules[i]
		r.NoSal = false
		tt := r.Text()
		for _, s := range []string{"salience ", "SALIENCE ", "Salience "} {
			tt = strings.Replace(tt, s, s+"high", 1)
		}
		texts[i] = tt
	default:
		op.Fail = "syntax-stray-brace"
		texts[i] = strings.Replace(t, " tr(", " } tr(", 1)
	}
	op.Text = strings.Join(texts, g.sep())
	return op
}

// Next chooses the next operation of a history.
func (g *Gen) Next(m Model, first bool) *Op {
	p := g.R.Intn(100)
	if first && p < 60 {
		op := g.Full(m)
		g.fulls = append(g.fulls, op)
		return op
	}
	if len(m) == 0 && p >= 60 && g.R.Intn(3) > 0 { // an empty set is a poor start for removals and rejected texts
		p = g.R.Intn(60)
	}
	switch {
	case p < 14:
		if len(g.fulls) > 0 && g.R.Intn(3) == 0 {
			return g.again(m, g.fulls[g.R.Intn(len(g.fulls))])
		}
		op := g.Full(m)
		g.fulls = append(g.fulls, op)
		return op
	case p < 60:
		if len(g.incs) > 0 && g.R.Intn(8) == 0 {
			return g.again(m, g.incs[g.R.Intn(len(g.incs))])
		}
		op := g.Inc(m)
		g.incs = append(g.incs, op)
		return op
	case p < 82:
		return g.Remove(m)
	case p < 87:
		return g.Fail(m, KFullFail)
	case p < 95:
		return g.Fail(m, KIncFail)
	}
	return g.RemoveEmpty()
}
