package algebra

import (
	"fmt"
	"sort"
	"strings"
	"sync"

	"github.com/bilibili/gengine/builder"
	"github.com/bilibili/gengine/context"
	"github.com/bilibili/gengine/engine"

	"verifharness/fw"
	"verifharness/trace"
)

// observer is the injected function tr(v): it records v in execution order.
type observer struct {
	mu  sync.Mutex
	seq []int64
}

func (o *observer) tr(v int64) {
	o.mu.Lock()
	o.seq = append(o.seq, v)
	o.mu.Unlock()
}

func (o *observer) take() []int64 {
	o.mu.Lock()
	defer o.mu.Unlock()
	s := o.seq
	o.seq = nil
	return s
}

// guard runs f and converts a panic into a string.
func guard(f func()) (pan string) {
	defer func() {
		if r := recover(); r != nil {
			pan = fmt.Sprint(r)
		}
	}()
	f()
	return ""
}

// observation is everything seen after one operation.
type observation struct {
	Trace      []int64          `json:"trace_versions"`
	TraceNames []string         `json:"trace_decoded"` // name#version@salience-of-that-version
	ExecErrNil bool             `json:"execute_err_nil"`
	Result     map[string]int64 `json:"result_map,omitempty"`
	ResultOdd  []string         `json:"result_map_non_int64,omitempty"`
	Queried    []string         `json:"isexist_names"`
	Exist      []bool           `json:"isexist_answer"`
	Stored     []string         `json:"stored_rules,omitempty"` // builder's priority list as name|salience|description
}

type history struct {
	k     *fw.Case
	ops   []*Op
	byVer map[int64]Rule // every version ever generated (also those of failing texts)
}

func (h *history) witness(model Model, obs *observation, extra map[string]interface{}) map[string]interface{} {
	w := map[string]interface{}{
		"history":   h.ops,
		"failed_at": len(h.ops) - 1,
		"model":     model.Sorted(),
		"observed":  obs,
		"how_to_replay": "one context.DataContext with tr=func(int64) injected, one builder.NewRuleBuilder(dc), one engine.NewGengine(); apply the history in order " +
			"(full -> BuildRuleFromString(text), incremental -> BuildRuleWithIncremental(text), remove -> RemoveRules(names)); after the last op eng.Execute(rb,true) and compare the tr() sequence with model",
	}
	for k, v := range extra {
		w[k] = v
	}
	return w
}

// Config of the family.
type Config struct {
	QuickOps    int // operations per history in the quick tier
	ThoroughMin int // thorough: ThoroughMin + Intn(ThoroughVar)
	ThoroughVar int
}

// RunCase runs one history.
func RunCase(k *fw.Case, cfg *Config) {
	nops := cfg.QuickOps
	if k.Tier == "thorough" {
		nops = cfg.ThoroughMin + k.Rng.Intn(cfg.ThoroughVar)
	}
	g := NewGen(k.Rng)
	obs := &observer{}
	dc := context.NewDataContext()
	dc.Add("tr", obs.tr)
	rb := builder.NewRuleBuilder(dc)
	eng := engine.NewGengine()

	h := &history{k: k, byVer: map[int64]Rule{}}
	model := Model{}
	var sig []string

	for i := 0; i < nops; i++ {
		op := g.Next(model, i == 0)
		for _, r := range op.Rules {
			h.byVer[r.Version] = r
		}
		h.ops = append(h.ops, op)
		before := model.clone()
		model.Apply(op)
		op.SetSize = len(model)

		// ---- the operation itself
		var err error
		pan := guard(func() {
			switch op.Kind {
			case KFull, KFullFail:
				err = trace.CompileLocked(func() error { return rb.BuildRuleFromString(op.Text) })
			case KInc, KIncFail:
				err = trace.CompileLocked(func() error { return rb.BuildRuleWithIncremental(op.Text) })
			case KRemove:
				err = rb.RemoveRules(append([]string{}, op.Names...))
			case KRemoveEmpty:
				if op.NilList {
					err = rb.RemoveRules(nil)
				} else {
					err = rb.RemoveRules([]string{})
				}
			}
		})
		k.Count("op_"+op.Kind, 1)
		if op.Again {
			k.Count("earlier_text_pushed_again", 1)
		}
		k.Eval(1)
		sig = append(sig, op.Kind+"["+strings.Join(op.Rel, ",")+"]"+fmt.Sprint(len(model)))
		if op.Kind == KInc {
			for _, rel := range op.Rel {
				k.Count("inc_rel_"+rel, 1)
				if rel == RelChanged {
					k.Count("salience_changes", 1)
				}
			}
			if len(op.Rules) > 1 {
				k.Count("inc_multi_rule_calls", 1)
			}
		}
		if op.Kind == KRemove {
			for _, n := range op.Names {
				if _, ok := before[n]; !ok {
					k.Count("remove_absent_names", 1)
				}
			}
			if len(model) == 0 && len(before) > 0 {
				k.Count("removed_everything", 1)
			}
		}
		if pan != "" {
			op.Panic = pan
			k.Violate(op.Kind+"/panic", fmt.Sprintf("%s panicked into the caller: %s", opName(op), clip(pan)), h.witness(model, nil, nil))
			return
		}
		ge := err != nil
		op.GotErr = &ge

		// ---- observe
		o, opan := h.observe(rb, eng, obs)
		if opan != "" {
			k.Violate(op.Kind+"/panic", fmt.Sprintf("after %s: %s", opName(op), clip(opan)), h.witness(model, o, nil))
			return
		}
		k.Count("rules_executed", int64(len(o.Trace)))
		if model.HasTie() {
			k.Count("ties_present", 1)
		}
		if len(model) == 0 {
			k.Count("empty_set_states", 1)
		}
		k.Max("max_set_size", int64(len(model)))

		// ---- compare
		if h.compare(op, before, model, o, ge) {
			return // the implementation and the model diverged: the rest of the history says nothing
		}
	}
	k.Distinct(strings.Join(sig, ";"))
	if k.Index < 16 {
		small := make([]map[string]interface{}, 0, len(h.ops))
		for _, op := range h.ops {
			e := map[string]interface{}{"kind": op.Kind, "size_after": op.SetSize}
			if op.Text != "" {
				e["text"] = op.Text
			}
			if op.Names != nil {
				e["names"] = op.Names
			}
			small = append(small, e)
		}
		k.Sample(map[string]interface{}{"history": small, "final_model": model.Sorted()})
	}
}

func opName(op *Op) string {
	switch op.Kind {
	case KFull, KFullFail:
		return "BuildRuleFromString"
	case KInc, KIncFail:
		return "BuildRuleWithIncremental"
	}
	return "RemoveRules"
}

func clip(s string) string {
	if len(s) > 160 {
		return s[:160] + "..."
	}
	return s
}

// observe executes the sort model and queries the builder.
func (h *history) observe(rb *builder.RuleBuilder, eng *engine.Gengine, obs *observer) (*observation, string) {
	o := &observation{}
	obs.take()
	var err error
	if p := guard(func() { err = eng.Execute(rb, true) }); p != "" {
		o.Trace = obs.take()
		return o, "Execute panicked: " + p
	}
	o.Trace = obs.take()
	o.ExecErrNil = err == nil
	for _, v := range o.Trace {
		if r, ok := h.byVer[v]; ok {
			o.TraceNames = append(o.TraceNames, fmt.Sprintf("%s#%d@%d", r.Name, v, r.Salience))
		} else {
			o.TraceNames = append(o.TraceNames, fmt.Sprintf("?#%d", v))
		}
	}
	var res map[string]interface{}
	if p := guard(func() { res, _ = eng.GetRulesResultMap() }); p != "" {
		return o, "GetRulesResultMap panicked: " + p
	}
	o.Result = map[string]int64{}
	for n, v := range res {
		if i, ok := v.(int64); ok {
			o.Result[n] = i
		} else {
			o.ResultOdd = append(o.ResultOdd, fmt.Sprintf("%s=%T(%v)", n, v, v))
		}
	}
	sort.Strings(o.ResultOdd)

	q := append(append([]string{}, Alphabet...), NeverUsed...)
	h.k.Rng.Shuffle(len(q), func(i, j int) { q[i], q[j] = q[j], q[i] })
	o.Queried = q
	if p := guard(func() { o.Exist = rb.IsExist(append([]string{}, q...)) }); p != "" {
		return o, "IsExist panicked: " + p
	}
	var e0, e1 []bool
	if p := guard(func() { e0 = rb.IsExist(nil); e1 = rb.IsExist([]string{}) }); p != "" {
		return o, "IsExist(empty) panicked: " + p
	}
	if len(e0) != 0 || len(e1) != 0 {
		o.Exist = append(o.Exist, e0...) // makes the mismatch visible in the witness
		o.Exist = append(o.Exist, e1...)
	}
	if p := guard(func() { o.Stored = stored(rb) }); p != "" {
		return o, "reading the builder's container panicked: " + p
	}
	return o, ""
}

// stored reads name, salience and description of the builder's priority list through the
// exported field RuleBuilder.Kc (the only way to see a description from outside).
func stored(rb *builder.RuleBuilder) []string {
	if rb.Kc == nil {
		return nil
	}
	out := make([]string, 0, len(rb.Kc.SortRules))
	for _, r := range rb.Kc.SortRules {
		if r == nil {
			out = append(out, "<nil>")
			continue
		}
		out = append(out, fmt.Sprintf("%s|%d|%s", r.RuleName, r.Salience, r.RuleDescription))
	}
	return out
}

// compare checks the observation against the model; it reports whether a violation was found.
func (h *history) compare(op *Op, before, model Model, o *observation, gotErr bool) bool {
	k := h.k
	bad := false
	viol := func(key, what string, extra map[string]interface{}) {
		bad = true
		k.Violate(key, what, h.witness(model, o, extra))
	}
	failing := op.WantErr
	pre := op.Kind
	if failing {
		pre = "failed-op"
	}

	// (4) nil-ness of the returned error
	if gotErr != op.WantErr {
		w := "returned an error for a valid operation"
		if op.WantErr {
			w = "returned nil for " + op.Kind
			if op.Fail != "" {
				w += " (" + op.Fail + ")"
			}
		}
		viol(op.Kind+"/error-nil-ness", opName(op)+" "+w, nil)
	}

	// (1) trace: exactly the model's versions, each once, saliences non-increasing
	want := map[int64]Rule{}
	for _, r := range model {
		want[r.Version] = r
	}
	seen := map[int64]int{}
	for _, v := range o.Trace {
		seen[v]++
	}
	var missing, dup, stale, notRemoved, notReplaced, foreign []string
	for v, r := range want {
		if seen[v] == 0 {
			missing = append(missing, fmt.Sprintf("%s#%d", r.Name, v))
		}
	}
	removed := map[string]bool{}
	if op.Kind == KRemove {
		for _, n := range op.Names {
			removed[n] = true
		}
	}
	for v, n := range seen {
		r, known := h.byVer[v]
		tag := fmt.Sprintf("%s#%d", r.Name, v)
		if _, ok := want[v]; ok {
			if n > 1 {
				dup = append(dup, tag)
			}
			continue
		}
		old, wasInstalled := before[r.Name]
		wasInstalled = wasInstalled && old.Version == v
		switch {
		case !known:
			foreign = append(foreign, fmt.Sprintf("?#%d", v))
		case op.Kind == KRemove && wasInstalled && removed[r.Name]:
			notRemoved = append(notRemoved, tag)
		case op.Kind == KFull && wasInstalled:
			notReplaced = append(notReplaced, tag)
		default:
			// a version that was replaced (now or earlier), removed earlier, or belongs to a rejected text
			stale = append(stale, tag)
		}
	}
	for _, s := range [][]string{missing, dup, stale, notRemoved, notReplaced, foreign} {
		sort.Strings(s)
	}
	ex := func(name string, l []string) map[string]interface{} { return map[string]interface{}{name: l} }
	if failing {
		if len(missing)+len(dup)+len(stale)+len(foreign) > 0 {
			viol("failed-op/state-changed", fmt.Sprintf("a rejected %s changed the installed set: missing %v, twice %v, unexpected %v", op.Kind, missing, dup, append(stale, foreign...)),
				map[string]interface{}{"missing": missing, "ran_twice": dup, "unexpected": append(stale, foreign...)})
		}
	} else {
		if len(missing) > 0 {
			viol(pre+"/missing-rule", fmt.Sprintf("after %s the rules %v of the denoted set did not run", op.Kind, missing), ex("missing", missing))
		}
		if len(notRemoved) > 0 {
			viol("remove/not-removed", fmt.Sprintf("removed rules still run: %v", notRemoved), ex("not_removed", notRemoved))
		}
		if len(notReplaced) > 0 {
			viol("full/not-replaced", fmt.Sprintf("rules of the previous set survive a full build: %v", notReplaced), ex("not_replaced", notReplaced))
		}
		if len(stale) > 0 {
			viol(pre+"/stale-version", fmt.Sprintf("after %s stale rule versions run: %v", op.Kind, stale), ex("stale", stale))
		}
		if len(dup) > 0 {
			viol(pre+"/ran-twice", fmt.Sprintf("after %s rules run more than once per execution (names not unique): %v", op.Kind, dup), ex("ran_twice", dup))
		}
		if len(foreign) > 0 {
			viol(pre+"/unknown-version", fmt.Sprintf("tr() saw versions no text contains: %v", foreign), ex("unknown", foreign))
		}
	}
	// order: over the versions of the trace that belong to the model (current saliences)
	var prev *Rule
	for _, v := range o.Trace {
		r, ok := want[v]
		if !ok {
			continue
		}
		if prev != nil && r.Salience > prev.Salience {
			p := *prev
			rr := r
			viol(pre+"/order", fmt.Sprintf("after %s %s#%d (salience %d) ran before %s#%d (salience %d)", op.Kind, p.Name, p.Version, p.Salience, rr.Name, rr.Version, rr.Salience),
				map[string]interface{}{"earlier": p, "later": rr})
			break
		}
		r2 := r
		prev = &r2
	}
	if len(model) > 0 && !o.ExecErrNil && !bad {
		viol(pre+"/execute-error", "Execute(rb,true) returned an error although no rule body can fail and the set is not empty", nil)
	}

	// (2) result map == {name -> int64(version)}
	if !bad || len(o.ResultOdd) > 0 {
		diff := []string{}
		for n, r := range model {
			if got, ok := o.Result[n]; !ok {
				diff = append(diff, fmt.Sprintf("%s: missing (want %d)", n, r.Version))
			} else if got != r.Version {
				diff = append(diff, fmt.Sprintf("%s: %d (want %d)", n, got, r.Version))
			}
		}
		for n, got := range o.Result {
			if _, ok := model[n]; !ok {
				diff = append(diff, fmt.Sprintf("%s: %d (want no entry)", n, got))
			}
		}
		diff = append(diff, o.ResultOdd...)
		sort.Strings(diff)
		if len(diff) > 0 {
			viol(pre+"/result-map", fmt.Sprintf("result map after %s differs from {name -> version}: %v", op.Kind, diff), ex("result_diff", diff))
		}
	}

	// (3) existence queries
	nq := len(Alphabet) + len(NeverUsed)
	if len(o.Exist) != nq {
		viol("isexist/mismatch", fmt.Sprintf("IsExist answered %d values for %d names (or a non-empty answer for an empty query)", len(o.Exist), nq), nil)
	} else {
		var diff []string
		for i, n := range o.Queried {
			_, w := model[n]
			if o.Exist[i] != w {
				diff = append(diff, fmt.Sprintf("%q: got %v want %v", n, o.Exist[i], w))
			}
		}
		if len(diff) > 0 {
			key := "isexist/mismatch"
			viol(key, fmt.Sprintf("IsExist disagrees with the denoted set after %s: %v", op.Kind, diff), ex("isexist_diff", diff))
		}
	}

	// (5) stored name / salience / description of the priority list
	if !bad {
		wantStored := map[string]int{}
		for _, r := range model {
			wantStored[fmt.Sprintf("%s|%d|%s", r.Name, r.Salience, r.Desc)]++
		}
		var diff []string
		for _, s := range o.Stored {
			if wantStored[s] == 0 {
				diff = append(diff, "unexpected "+s)
			}
			wantStored[s]--
		}
		for s, n := range wantStored {
			if n > 0 {
				diff = append(diff, "missing "+s)
			}
		}
		sort.Strings(diff)
		if len(diff) > 0 {
			viol(pre+"/stored-attributes", fmt.Sprintf("name|salience|description of the installed rules after %s differ from the denoted set: %v", op.Kind, diff), ex("stored_diff", diff))
		}
	}
	return bad
}
