package families

import (
	"verifharness/fw"
	"verifharness/linecite"
)

func init() {
	fw.Families["C20"] = linecite.Run
}
