package families

import (
	"verifharness/algebra"
	"verifharness/fw"
)

func init() {
	c08 := &algebra.Config{QuickOps: 12, ThoroughMin: 8, ThoroughVar: 13}
	fw.Families["C08"] = func(k *fw.Case) { algebra.RunCase(k, c08) }
}
