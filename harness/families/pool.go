package families

import (
	"verifharness/fw"
	"verifharness/poolmon"
)

func init() {
	fw.Families["C06"] = poolmon.RunC06
	fw.Families["C17"] = poolmon.RunC17
	fw.Families["C07"] = poolmon.RunC07
	fw.Families["C16"] = poolmon.RunC16
}
