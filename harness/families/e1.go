package families

import (
	"verifharness/e1"
	"verifharness/fw"
)

func init() {
	fw.Families["C01"] = e1.RunC01
	fw.Families["C02"] = e1.RunC02
	fw.Families["C03"] = e1.RunC03
	fw.Families["C18"] = e1.RunC18
}
