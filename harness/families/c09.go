package families

import (
	"fmt"
	"math/rand"

	"verifharness/fw"
	"verifharness/gen"
	"verifharness/specs"
	"verifharness/trace"
)

// randomFault: an E1 ill-typed expression (or a hostile injected value) inside a random construct.
func randomFault(r *rand.Rand, id int) (string, string, map[string]interface{}) {
	fx := gen.NewFixture(r.Int63())
	tbl := fx.Table()
	// hostile values: nil pointers, empty containers
	fx.H.Pn = nil
	tbl["EmptyS"] = []int64{}
	tbl["EmptyM"] = map[string]int64{}
	g := &gen.G{R: r, Locals: map[string]interface{}{}, NoCalls: true}
	p := &gen.Printer{}
	var e string
	kind := "ill-typed-expression"
	switch r.Intn(6) {
	case 0:
		e, kind = "H.Pn.X + 1", "nil-nested-pointer"
	case 1:
		e, kind = "EmptyS[0]", "empty-slice-index"
	case 2:
		e, kind = fmt.Sprintf("PS[%d]", 5+r.Intn(100)), "pointer-slice-out-of-range"
	default:
		var x gen.Expr
		for tries := 0; ; tries++ {
			x = g.IllTyped(1 + r.Intn(3))
			env := gen.NewEnv(tbl, gen.RuleMeta{Name: "bad"})
			if _, err := env.Eval(x); err != nil && err != gen.ErrUndefined {
				break
			}
			if tries > 50 {
				x = &gen.Bin{Op: "+", L: &gen.Lit{V: int64(1), Text: "1"}, R: &gen.Lit{V: "a", Text: "\"a\""}}
				break
			}
		}
		e = p.Expr(x)
	}
	var body string
	cons := []string{"assign", "if", "for-cond", "return", "call-arg", "conc", "nested", "else-if"}[r.Intn(8)]
	switch cons {
	case "assign":
		body = fmt.Sprintf("zq = %s en(%d)", e, id)
	case "if":
		body = fmt.Sprintf("if (%s) == 1 { zq = 1 } en(%d)", e, id)
	case "else-if":
		body = fmt.Sprintf("if 1 > 2 { zq = 1 } else if (%s) == 1 { zq = 2 } en(%d)", e, id)
	case "for-cond":
		body = fmt.Sprintf("for fi = 0; (%s) == 1; fi += 1 { zq = 1 break } en(%d)", e, id)
	case "return":
		body = fmt.Sprintf("return %s", e)
	case "call-arg":
		body = fmt.Sprintf("zq = idn(%s) en(%d)", e, id)
	case "conc":
		body = fmt.Sprintf("conc { zq = %s zr = 1 } en(%d)", e, id)
	default:
		body = fmt.Sprintf("if 1 < 2 { forRange fk := VS { if fk == 1 { zq = %s } } } en(%d)", e, id)
	}
	return body, "random/" + kind + "@" + cons, tbl
}

func init() {
	fw.Families["C09"] = func(k *fw.Case) {
		if trace.NFaultCells() != specs.C09Cells {
			k.Inconclusive(fmt.Sprintf("catalog has %d cells, the spec says %d", trace.NFaultCells(), specs.C09Cells))
			return
		}
		trace.RunC09(k, randomFault)
	}
}
