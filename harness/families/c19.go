package families

import (
	"verifharness/e1"
	"verifharness/fw"
	"verifharness/poolmon"
	"verifharness/trace"
)

// C19: the scenario families of the concurrency properties are the workload; the deciding
// oracle is the race detector (reports are parsed and classified by the coordinator).
func init() {
	conc := &trace.Config{
		Methods:  []string{trace.MConcurrent, trace.MSelConcurrent, trace.MMix, trace.MInverse, trace.MNConcMConc, trace.MNSortMConc, trace.MNConcMSort, trace.MDAG, trace.MSelMix, trace.MSelInverse, trace.MPoolEM, trace.MPoolEMMulti},
		Clauses:  trace.Clauses(),
		Gen:      trace.GenOpts{MinRules: 3, MaxRules: 9, FailProb: 0.15, RetProb: 0.7},
		Calls:    10,
		PoolProb: 0.4,
		Holds:    true,
		DupDAG:   true,
	}
	locals := &trace.Config{
		Methods:  []string{trace.MConcurrent, trace.MMix, trace.MNConcMConc, trace.MDAG, trace.MInverse},
		Clauses:  trace.Clauses(),
		Gen:      trace.GenOpts{MinRules: 3, MaxRules: 8, FailProb: 0.1, RetProb: 0.3, Locals: true},
		Calls:    8,
		PoolProb: 0.3,
		Holds:    true,
		DupDAG:   true,
	}
	scen := []func(k *fw.Case){
		func(k *fw.Case) { trace.RunCase(k, conc) },
		func(k *fw.Case) { trace.RunCase(k, locals) },
		e1.RunC18,
		poolmon.RunC06,
		poolmon.RunC17,
		func(k *fw.Case) { k.Index += poolmon.NProbes; poolmon.RunC07(k) }, // histories only
		poolmon.RunC16,
		poolmon.RunMgmtStorm,
	}
	names := []string{"models", "locals", "conc-blocks", "pool-storm", "pool-capacity", "update-histories", "management-rounds", "management-storm"}
	fw.Families["C19"] = func(k *fw.Case) {
		i := k.Index % len(scen)
		k.Mute = true
		k.Count("family_"+names[i], 1)
		scen[i](k)
	}
}
