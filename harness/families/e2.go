// Package families links every property family into the worker.
package families

import (
	"verifharness/fw"
	_ "verifharness/specs"
	"verifharness/trace"
)

func init() {
	c04 := &trace.Config{
		// the stop-tag variants of the sorted loops are sort-model executions too (their stop clause is C14's)
		Methods:     []string{trace.MExecute, trace.MSel, trace.MSelCtl, trace.MExecute, trace.MSelCtl, trace.MExecuteStop, trace.MSelCtlStop},
		StopSetters: 1,
		Clauses:     trace.Clauses(trace.ClSeq, trace.ClOnce, trace.ClOrder, trace.ClPolicy, trace.ClError, trace.ClLate, trace.ClSelect),
		Gen:         trace.GenOpts{MinRules: 1, MaxRules: 10, FailProb: 0.25, RetProb: 0.3, WideSal: true},
		Calls:       8,
		PoolProb:    0.5,
		DupNames:    true, // for a list with a duplicated name only 'no unselected rule runs' is decided
	}
	fw.Families["C04"] = func(k *fw.Case) { trace.RunCase(k, c04) }

	c05 := &trace.Config{
		// the stop-tag flavour of mix with a tag nobody sets is a mix-model execution as well
		Methods: []string{trace.MMix, trace.MInverse, trace.MNSortMConc, trace.MNConcMSort, trace.MNConcMConc, trace.MSelMix, trace.MSelInverse,
			trace.MSelNSortMConc, trace.MSelNConcMSort, trace.MSelNConcMConc, trace.MPoolEM, trace.MPoolEMSel, trace.MMixStop},
		// select: a rule outside the set the model is applied to ran (for the selected variants that set is the selection)
		Clauses:  trace.Clauses(trace.ClBarrier, trace.ClWindow, trace.ClOnce, trace.ClOrder, trace.ClPolicy, trace.ClSeq, trace.ClLate, trace.ClSelect),
		Gen:      trace.GenOpts{MinRules: 1, MaxRules: 10, FailProb: 0.2, RetProb: 0.2, WideSal: true},
		Calls:    8,
		PoolProb: 0.35,
		Holds:    true,
		DupNames: true,
		BigSets:  15,
	}
	fw.Families["C05"] = func(k *fw.Case) { trace.RunCase(k, c05) }

	all := append(append([]string{}, trace.EngineMethods...), trace.PoolOnlyMethods...)
	c11 := &trace.Config{
		Methods:      all,
		Clauses:      trace.Clauses(trace.ClResult),
		Gen:          trace.GenOpts{MinRules: 1, MaxRules: 8, FailProb: 0.25, RetProb: 0.65},
		Calls:        8,
		PoolProb:     0.5,
		Holds:        true,
		UnknownNames: true,
		BadNM:        true,
		BadSplit:     true,
		BigSets:      12,
		StopSetters:  1,
		DupDAG:       true,
	}
	fw.Families["C11"] = func(k *fw.Case) {
		trace.RunCase(k, c11)
		if k.Index%4 == 0 {
			trace.SoloStatement(k)
		}
	}

	c12 := &trace.Config{
		Methods: []string{trace.MSel, trace.MSelCtl, trace.MSelCtlGiven, trace.MSelCtlStop, trace.MSelCtlStopGiven, trace.MSelConcurrent, trace.MSelMix,
			trace.MSelInverse, trace.MSelNSortMConc, trace.MSelNConcMSort, trace.MSelNConcMConc, trace.MPoolEMSel, trace.MSelCtlGiven},
		// panic: a selected call that panics into its caller (e.g. on a name list with a repeated name) has not run the named rules
		Clauses:      trace.Clauses(trace.ClSelect, trace.ClGiven, trace.ClOrder, trace.ClOnce, trace.ClBarrier, trace.ClWindow, trace.ClSeq, trace.ClLate, trace.ClPanic),
		Gen:          trace.GenOpts{MinRules: 1, MaxRules: 9, FailProb: 0.15, RetProb: 0.2, WideSal: true},
		Calls:        10,
		PoolProb:     0.35,
		Holds:        true,
		UnknownNames: true,
		BadNM:        true,
		DupNames:     true,
	}
	fw.Families["C12"] = func(k *fw.Case) { trace.RunCase(k, c12) }

	c13 := &trace.Config{
		Methods: []string{trace.MDAG},
		Clauses: trace.Clauses(trace.ClDag, trace.ClBarrier, trace.ClOnce, trace.ClError, trace.ClLate),
		Gen: trace.GenOpts{MinRules: 1, MaxRules: 9, FailProb: 0.15, RetProb: 0.3,
			// incl. a rule that fails on its first execution of a call only: named twice in a layer, one occurrence
			// fails and the other succeeds
			FailKinds: []int{trace.FailDivZero, trace.FailAddString, trace.FailMissingVar, trace.FailCmpType, trace.FailPanicFn, trace.FailMissingFn, trace.FailIndexCond, trace.FailNonBool, trace.FailPanicBig, trace.FailFirstOnly, trace.FailFirstOnly, trace.FailFirstOnly}},
		Calls:     6,
		PoolProb:  0.35,
		Holds:     true,
		DupDAG:    true,
		BigSets:   6,
		EmptyDAG:  true,
		SlowLayer: true,
	}
	fw.Families["C13"] = func(k *fw.Case) { trace.RunCase(k, c13) }

	c14 := &trace.Config{
		Methods: []string{trace.MExecuteStop, trace.MMixStop, trace.MSelCtlStop, trace.MSelCtlStopGiven},
		Clauses: trace.Clauses(trace.ClStop, trace.ClSeq, trace.ClOnce, trace.ClOrder, trace.ClPolicy, trace.ClError, trace.ClBarrier, trace.ClGiven,
			trace.ClSelect, trace.ClLate, trace.ClResult), // result: 'identical to the variant without a tag' includes what the call hands back
		Gen:         trace.GenOpts{MinRules: 1, MaxRules: 8, FailProb: 0.2, RetProb: 0.2},
		Calls:       8,
		PoolProb:    0.35,
		Holds:       true,
		StopSetters: 2,
		// name lists with unknown names / no existing name at all: the tagged variants must treat them like
		// their twins without a tag do
		UnknownNames: true,
	}
	fw.Families["C14"] = func(k *fw.Case) {
		trace.RunCase(k, c14)
		if k.Index%4 == 0 {
			trace.TagEquivalence(k)
		}
	}

	c15 := &trace.Config{
		Methods:  trace.EngineMethods,
		Clauses:  trace.Clauses(trace.ClFaultRan, trace.ClLocalVal),
		Gen:      trace.GenOpts{MinRules: 2, MaxRules: 8, FailProb: 0.1, RetProb: 0.3, Locals: true},
		Calls:    8,
		PoolProb: 0.35,
		Holds:    true,
		DupDAG:   true,
	}
	fw.Families["C15"] = func(k *fw.Case) {
		trace.RunCase(k, c15)
		trace.LeakProbe(k)
	}
}
