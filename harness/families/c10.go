package families

import (
	"verifharness/cfuzz"
	"verifharness/fw"
)

func init() {
	fw.Families["C10"] = cfuzz.Run
}
