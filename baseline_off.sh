#!/bin/bash
# MANIFEST.hooks.baseline_off_cmd: the repository's own test suite with the verif guard OFF
# (no -tags verif), compared against the stable baseline recorded in /root/.vp/BASELINE.json.
export GOFLAGS=-mod=mod GOPROXY=off GOSUMDB=off GOTOOLCHAIN=local
cd /repo || exit 2
out=$(mktemp)
go test -json -vet=off -count=1 -timeout 25m ./... > "$out" 2>/dev/null
python3 - "$out" <<'PY'
import json,sys
base=json.load(open('/root/.vp/BASELINE.json'))
want=set(base['stable_pass'])
res={}
for l in open(sys.argv[1]):
    try: e=json.loads(l)
    except Exception: continue
    if e.get('Test') and e.get('Action') in('pass','fail') and '/' not in e['Test']:
        res[e['Package']+'::'+e['Test']]=e['Action']
missing=[t for t in sorted(want) if res.get(t)!='pass']
print("baseline tests passing with guard off: %d/%d"%(len(want)-len(missing),len(want)))
for t in missing: print("NOT PASSING:",t,res.get(t))
sys.exit(1 if missing else 0)
PY
rc=$?
rm -f "$out"
exit $rc
